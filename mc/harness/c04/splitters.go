package c04

import (
	"bytes"
	"context"
	"fmt"
	"io"
	"math/big"
	"net/http"
	"net/http/httptest"
	"slices"
	"sort"
	"strings"
	"time"

	"github.com/aws/aws-sdk-go-v2/aws"
	awskinesis "github.com/aws/aws-sdk-go-v2/service/kinesis"
	gproto "google.golang.org/protobuf/proto"
	"reduction.dev/reduction/connectors"
	"reduction.dev/reduction/connectors/embedded"
	"reduction.dev/reduction/connectors/httpapi"
	"reduction.dev/reduction/connectors/kinesis"
	"reduction.dev/reduction/connectors/kinesis/kinesisfake"
	"reduction.dev/reduction/connectors/kinesis/kinesispb"
	"reduction.dev/reduction/proto/snapshotpb"
	"reduction.dev/reduction/proto/workerpb"
	"verif.local/mc/harness/schedh"
	"verif.local/mc/mc"
	"verif.local/mc/report"
	"verif.local/mc/shim"
)

// splitterParts: every split has exactly one reader (embedded, httpapi), and the kinesis
// splitter's shard hand-out across split/merge/discovery/finish/checkpoint+restore histories.
func splitterParts(k *report.Check) {
	k.Explore("splitters/embedded+httpapi", mc.Config{Workers: 1}, nil, simpleSplitters)
	k.Explore("embedded-reader", mc.Config{Workers: 1}, nil, embeddedReaderBody)
	k.Explore(fmt.Sprintf("kinesis-reader/d=%d", k.Pick(6, 8)), mc.Config{Deadline: k.Within(0.15)}, k.Pick(6, 8), kinesisReaderBody)
	k.ExploreSched(fmt.Sprintf("kinesis-splitter/d=%d", k.Pick(6, 7)), mc.Config{Bound: 0, Deadline: k.Within(0.4)}, k.Pick(6, 7), kinesisBody)
}

func simpleSplitters(c *mc.Ctx) {
	splits := c.Choose(6)
	runners := 1 + c.Choose(4)
	ids := make([]string, runners)
	for i := range ids {
		ids[i] = fmt.Sprintf("sr%d", i)
	}
	c.Op("splits=%d runners=%d", splits, runners)
	check := func(name string, want int, got map[string][]*workerpb.SourceSplit, cursor string) {
		seen := map[string]string{}
		for r, ss := range got {
			known := false
			for _, id := range ids {
				known = known || id == r
			}
			if !known {
				c.FailSig("split-to-unknown-runner", "%s splitter assigned splits to unknown runner %q", name, r)
			}
			for _, s := range ss {
				if prev, ok := seen[s.SplitId]; ok {
					c.FailSig("split-assigned-twice", "%s splitter assigned split %s to %s and %s", name, s.SplitId, prev, r)
				}
				seen[s.SplitId] = r
				if string(s.Cursor) != cursor {
					c.FailSig("split-cursor", "%s splitter hands split %s cursor %q, checkpointed cursor is %q", name, s.SplitId, s.Cursor, cursor)
				}
			}
		}
		if len(seen) != want {
			c.FailSig("split-unassigned", "%s splitter assigned %d of %d splits", name, len(seen), want)
		}
	}
	var got map[string][]*workerpb.SourceSplit
	hooks := connectors.SourceSplitterHooks{AssignSplits: func(a map[string][]*workerpb.SourceSplit) { got = a }}
	es := embedded.NewSourceSplitter(embedded.SourceConfig{SplitCount: splits}, ids, hooks)
	if err := es.Start(nil); err != nil {
		c.Failf("embedded splitter: %v", err)
	}
	check("embedded", splits, got, "")
	got = nil
	hs := httpapi.NewSourceSplitter(httpapi.SourceConfig{}, ids, hooks, nil)
	cur := []string{"", "c7"}[splits%2]
	var ck *snapshotpb.SourceCheckpoint
	if cur != "" {
		ck = &snapshotpb.SourceCheckpoint{SplitStates: [][]byte{[]byte(cur)}}
	}
	if err := hs.Start(ck); err != nil {
		c.Failf("httpapi splitter: %v", err)
	}
	check("httpapi", 1, got, cur)
	c.Nontrivial(fmt.Sprint(splits, runners))
}

type handlerTransport struct{ h http.Handler }

func (t handlerTransport) RoundTrip(req *http.Request) (*http.Response, error) {
	var body []byte
	if req.Body != nil {
		body, _ = io.ReadAll(req.Body)
	}
	r2 := httptest.NewRequest(req.Method, req.URL.String(), bytes.NewReader(body))
	r2.Header = req.Header
	rec := httptest.NewRecorder()
	t.h.ServeHTTP(rec, r2)
	return rec.Result(), nil
}

const streamARN = "arn:aws:kinesis:us-east-2:123456789012:stream/s"

type kworld struct {
	c        *mc.Ctx
	client   *awskinesis.Client
	splitter *kinesis.SourceSplitter
	runners  []string
	// observations of the current splitter incarnation
	assigned map[string]string // shard -> runner
	cursors  map[string]string // cursor each shard was last handed with
	// model
	finished map[string]bool     // shards reported finished by their reader
	parents  map[string][]string // shard -> parents
	open     []string            // open (unfinished in Kinesis terms) shards, in hash order
	progress map[string]string   // reader cursor per assigned shard
	errs     []string
}

func (w *kworld) hooks() connectors.SourceSplitterHooks {
	return connectors.SourceSplitterHooks{AssignSplits: func(a map[string][]*workerpb.SourceSplit) {
		for r, ss := range a {
			for _, s := range ss {
				if prev, ok := w.assigned[s.SplitId]; ok {
					w.errs = append(w.errs, fmt.Sprintf("shard %s handed out twice by one splitter incarnation (to %s, then %s)", s.SplitId, prev, r))
				}
				if w.finished[s.SplitId] {
					w.errs = append(w.errs, fmt.Sprintf("shard %s handed out again after its reader had finished it", s.SplitId))
				}
				w.assigned[s.SplitId] = r
				w.cursors[s.SplitId] = string(s.Cursor)
				for _, p := range w.parents[s.SplitId] {
					if !w.finished[p] {
						w.errs = append(w.errs, fmt.Sprintf("child shard %s handed out before its parent %s is finished", s.SplitId, p))
					}
				}
				if want := w.progress[s.SplitId]; string(s.Cursor) != want {
					w.errs = append(w.errs, fmt.Sprintf("shard %s handed out with cursor %q, its reader's checkpointed position is %q", s.SplitId, s.Cursor, want))
				}
			}
		}
	}}
}

func (w *kworld) newSplitter() {
	w.assigned, w.cursors = map[string]string{}, map[string]string{}
	w.splitter = kinesis.NewSourceSplitter(kinesis.SourceConfig{StreamARN: streamARN, Client: w.client, ShardDiscoveryInterval: 10 * time.Second}, w.runners, w.hooks(), make(chan error, 4))
}

func kinesisBody(c *mc.Ctx) {
	depth := c.Param.(int)
	_, handler := kinesisfake.VerifNewHandler()
	client := awskinesis.New(awskinesis.Options{EndpointResolver: awskinesis.EndpointResolverFromURL("http://kinesis.invalid"), Region: "us-east-2",
		Credentials: aws.AnonymousCredentials{}, Retryer: aws.NopRetryer{}, HTTPClient: &http.Client{Transport: handlerTransport{handler}}})
	w := &kworld{c: c, client: client, finished: map[string]bool{}, parents: map[string][]string{}, progress: map[string]string{}}
	nr := 1 + c.Choose(2)
	w.runners = []string{"sr0", "sr1"}[:nr]
	ctx := context.Background()
	restores := 0
	schedh.Run(c, schedh.Opts{MaxSteps: 20000, NoAdvanceAlt: true, MaxAdvances: 40}, func() {
		name := "s"
		if _, err := client.CreateStream(ctx, &awskinesis.CreateStreamInput{StreamName: &name, ShardCount: aws.Int32(2)}); err != nil {
			panic(fmt.Sprintf("mc: harness: create stream: %v", err))
		}
		w.open = []string{"shardId-000000000000", "shardId-000000000001"}
		next := 2
		w.newSplitter()
		c.Op("[runners=%d] Start", nr)
		if err := w.splitter.Start(nil); err != nil {
			w.errs = append(w.errs, "Start: "+err.Error())
			return
		}
		for step := 0; step < depth; step++ {
			op := c.Choose(6)
			switch op {
			case 0:
				step = depth
			case 1: // split the first open shard
				if len(w.open) == 0 || len(w.open) >= 4 {
					continue
				}
				i := c.Choose(len(w.open))
				sh := w.open[i]
				out, err := client.ListShards(ctx, &awskinesis.ListShardsInput{StreamName: &name})
				if err != nil {
					panic("mc: harness: list shards: " + err.Error())
				}
				var mid string
				for _, s := range out.Shards {
					if *s.ShardId == sh {
						mid = midpoint(*s.HashKeyRange.StartingHashKey, *s.HashKeyRange.EndingHashKey)
					}
				}
				if _, err := client.SplitShard(ctx, &awskinesis.SplitShardInput{StreamName: &name, ShardToSplit: &sh, NewStartingHashKey: &mid}); err != nil {
					continue
				}
				a, b := fmt.Sprintf("shardId-%012d", next), fmt.Sprintf("shardId-%012d", next+1)
				next += 2
				w.parents[a], w.parents[b] = []string{sh}, []string{sh}
				w.open = append(append(append([]string{}, w.open[:i]...), a, b), w.open[i+1:]...)
				c.Op("Split(%s)->%s,%s", short(sh), short(a), short(b))
			case 2: // merge two adjacent open shards
				if len(w.open) < 2 {
					continue
				}
				i := c.Choose(len(w.open) - 1)
				l, r := w.open[i], w.open[i+1]
				if _, err := client.MergeShards(ctx, &awskinesis.MergeShardsInput{StreamName: &name, ShardToMerge: &l, AdjacentShardToMerge: &r}); err != nil {
					continue
				}
				m := fmt.Sprintf("shardId-%012d", next)
				next++
				w.parents[m] = []string{l, r}
				w.open = append(append(append([]string{}, w.open[:i]...), m), w.open[i+2:]...)
				c.Op("Merge(%s,%s)->%s", short(l), short(r), short(m))
			case 3: // shard discovery interval passes
				c.Op("DiscoveryTick")
				shim.Sleep(10*time.Second + time.Millisecond)
			case 4: // a reader reaches the end of a closed shard it was assigned
				var cands []string
				for sh, r := range w.assigned {
					_ = r
					isOpen := false
					for _, o := range w.open {
						isOpen = isOpen || o == sh
					}
					if !isOpen && !w.finished[sh] {
						cands = append(cands, sh)
					}
				}
				sort.Strings(cands)
				if len(cands) == 0 {
					continue
				}
				sh := cands[c.Choose(len(cands))]
				c.Op("ReaderFinishes(%s)", short(sh))
				w.finished[sh] = true
				delete(w.progress, sh)
				w.splitter.NotifySplitsFinished(w.assigned[sh], []string{sh})
				shim.Sleep(time.Millisecond) // let the splitter's goroutine react
			case 5: // job checkpoint, then restart of the splitter from it
				state := w.splitter.Checkpoint()
				var splitStates [][]byte
				var ids []string
				for sh := range w.assigned {
					if !w.finished[sh] {
						ids = append(ids, sh)
					}
				}
				sort.Strings(ids)
				for _, sh := range ids {
					w.progress[sh] = "seq-" + short(sh) // the reader has made progress: its cursor is checkpointed
					b, _ := gproto.Marshal(&kinesispb.Shard{ShardId: sh, Cursor: w.progress[sh]})
					splitStates = append(splitStates, b)
				}
				c.Op("Checkpoint+Restore(assigned and unfinished: %v)", shorts(ids))
				w.splitter.Close()
				before := ids
				w.newSplitter()
				restores++
				func() {
					defer func() {
						if r := recover(); r != nil {
							w.errs = append(w.errs, fmt.Sprintf("restoring the splitter from its checkpoint panics: %v", r))
						}
					}()
					if err := w.splitter.Start(&snapshotpb.SourceCheckpoint{SplitterState: state, SplitStates: splitStates}); err != nil {
						w.errs = append(w.errs, "Start from checkpoint: "+err.Error())
					}
				}()
				if len(w.errs) > 0 {
					return
				}
				for _, sh := range before {
					if _, ok := w.assigned[sh]; !ok {
						w.errs = append(w.errs, fmt.Sprintf("shard %s was assigned and unfinished at the checkpoint but is not handed out after the restore", sh))
					}
				}
			}
			if len(w.errs) > 0 {
				return
			}
		}
		// bounded completeness: discovery ticks and readers finishing every closed shard they hold,
		// until nothing changes; then every shard of the stream has been handed out
		c.Op("readers finish every closed shard, discovery ticks")
		for round := 0; round < 8 && len(w.errs) == 0; round++ {
			shim.Sleep(10*time.Second + time.Millisecond)
			var fin []string
			for sh := range w.assigned {
				if !slices.Contains(w.open, sh) && !w.finished[sh] {
					fin = append(fin, sh)
				}
			}
			if len(fin) == 0 {
				break
			}
			sort.Strings(fin)
			for _, sh := range fin {
				w.finished[sh] = true
				delete(w.progress, sh)
				w.splitter.NotifySplitsFinished(w.assigned[sh], []string{sh})
				shim.Sleep(time.Millisecond)
			}
		}
		for i := 0; i < next && len(w.errs) == 0; i++ {
			sh := fmt.Sprintf("shardId-%012d", i)
			if _, ok := w.assigned[sh]; !ok && !w.finished[sh] {
				w.errs = append(w.errs, fmt.Sprintf("shard %s is never handed out although every parent shard has been read to its end", sh))
			}
		}
		w.splitter.Close()
	})
	if len(w.errs) > 0 {
		sig := "kinesis-splitter"
		switch {
		case strings.Contains(w.errs[0], "panics"):
			sig = "kinesis-restore-panics"
		case strings.Contains(w.errs[0], "before its parent"):
			sig = "kinesis-child-before-parent"
		case strings.Contains(w.errs[0], "never handed out"):
			sig = "kinesis-shard-never-read"
		case strings.Contains(w.errs[0], "handed out again after"):
			sig = "kinesis-finished-shard-again"
		case strings.Contains(w.errs[0], "twice"):
			sig = "kinesis-shard-twice"
		case strings.Contains(w.errs[0], "cursor"):
			sig = "kinesis-cursor"
		case strings.Contains(w.errs[0], "not handed out after"):
			sig = "kinesis-shard-forgotten"
		}
		c.FailSig(sig, "%s", strings.Join(w.errs, "; "))
	}
	if restores > 0 {
		c.Note("executions_with_splitter_restore")
	}
	c.Nontrivial(strings.Join(c.Ops(), " "))
}

func short(sh string) string {
	return "s" + strings.TrimLeft(strings.TrimPrefix(sh, "shardId-"), "0") + zero(sh)
}
func zero(sh string) string {
	if strings.TrimLeft(strings.TrimPrefix(sh, "shardId-"), "0") == "" {
		return "0"
	}
	return ""
}
func shorts(ss []string) []string {
	out := make([]string, len(ss))
	for i, s := range ss {
		out[i] = short(s)
	}
	return out
}

func midpoint(a, b string) string {
	var x, y, m bigInt
	x.SetString(a, 10)
	y.SetString(b, 10)
	m.Add(&x.Int, &y.Int)
	m.Rsh(&m.Int, 1)
	return m.String()
}

type bigInt struct{ big.Int }
