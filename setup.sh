#!/bin/bash
# Run once after a fresh restore, offline: build tools and warm the Go build cache.
cd "$(dirname "$0")" || exit 1
export VERIF=$(pwd)
. ./lib.sh
set -e
build_tools
build_mcheck plain
[ -d mc/shim/sync ] && build_mcheck sched || true
echo "setup ok"
