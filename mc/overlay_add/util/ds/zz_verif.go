package ds

// Added by the verification overlay (never part of /repo): state dumps used as canonical
// state keys by explicit-state searches.

import "fmt"

// VerifDump renders the cache contents and byte accounting.
func (s *SortedCache) VerifDump() string {
	out := fmt.Sprintf("size=%d[", s.byteSize)
	s.tree.Ascend(func(b []byte) bool {
		out += fmt.Sprintf("%x ", b)
		return true
	})
	return out + "]"
}

// VerifPartitions exposes the partitions in construction order.
func (p *PartitionedPriorityQueue[T]) VerifPartitions() []QueuePartition[T] { return p.partitions }
