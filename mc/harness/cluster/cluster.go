// Package cluster: the cluster simulator (DESIGN §2.4). A real jobs.Job, real operators and
// real source runners wired in process through harness RPC proxies. Components run with the
// default schedule; the explorer branches at network and environment events: which queued RPC
// is delivered next, when the checkpoint tick happens, and kills of workers or of the job.
package cluster

import (
	"context"
	"encoding/binary"
	"errors"
	"fmt"
	"sort"
	"strings"
	"time"

	gproto "google.golang.org/protobuf/proto"
	"google.golang.org/protobuf/types/known/timestamppb"
	"reduction.dev/reduction-protocol/handlerpb"
	"reduction.dev/reduction-protocol/jobconfigpb"
	"reduction.dev/reduction/batching"
	"reduction.dev/reduction/config"
	"reduction.dev/reduction/connectors"
	"reduction.dev/reduction/connectors/embedded"
	"reduction.dev/reduction/dkv"
	"reduction.dev/reduction/dkv/recovery"
	"reduction.dev/reduction/dkv/storage"
	"reduction.dev/reduction/jobs"
	"reduction.dev/reduction/proto"
	"reduction.dev/reduction/proto/jobpb"
	"reduction.dev/reduction/proto/snapshotpb"
	"reduction.dev/reduction/proto/workerpb"
	"reduction.dev/reduction/workers/operator"
	"reduction.dev/reduction/workers/sourcerunner"
	"verif.local/mc/harness/dkvh"
	"verif.local/mc/harness/jobh"
	"verif.local/mc/harness/refs"
	"verif.local/mc/mc"
	"verif.local/mc/shim"
)

// Record is one source record; it yields one keyed event per key.
type Record struct {
	Split string
	Idx   int
	Keys  []string
}

func (r Record) ID() string { return fmt.Sprintf("%s#%d", r.Split, r.Idx) }
func (r Record) encode() []byte {
	return []byte(fmt.Sprintf("%s|%d|%s", r.Split, r.Idx, strings.Join(r.Keys, ",")))
}
func decode(b []byte) Record {
	p := strings.SplitN(string(b), "|", 3)
	var r Record
	r.Split = p[0]
	fmt.Sscan(p[1], &r.Idx)
	if p[2] != "" {
		r.Keys = strings.Split(p[2], ",")
	}
	return r
}

// Config of a simulated job.
type Config struct {
	Workers              int
	KeyGroups            int
	Splits               map[string][]Record
	SplitOrder           []string
	ReadSize             int
	Batching             batching.EventBatcherParams
	TickAfter            []int // the checkpoint tick happens when this many event batches have been delivered to operators
	MaxEvents            int   // horizon in network/environment events
	SavepointAfter       int   // request a savepoint after this many delivered event batches (0 = never)
	QueuedSnapshotWrites bool  // the job's snapshot file writes are queued events like remote calls: the driver decides when each completes
}

// rpcCall is a queued remote call awaiting delivery.
type rpcCall struct {
	label  string
	from   string
	to     string
	go_    chan struct{}
	failed bool // the call must fail (an endpoint died while it was queued)
}

type worker struct {
	id     string // node id suffix
	op     *operator.Operator
	sr     *sourcerunner.SourceRunner
	opID   string
	srID   string
	clock  [2]*jobh.Clock
	alive  bool
	cancel context.CancelFunc
	h      *handler
}

// Cluster is one simulated run.
type Cluster struct {
	C       *mc.Ctx
	Cfg     *Config
	Base    string
	Root    *dkvh.FS
	Loc     *jobh.MemLoc
	Clock   *jobh.Clock
	Job     *jobs.Job
	jobGen  int
	src     *vsrc
	workers []*worker
	nextGen int
	pending []*rpcCall
	readers []*reader // every reader created so far (a redeploy creates new ones)

	Failures      []string
	Delivered     map[string]int // delivered calls per method
	Calls         []string       // every delivered call, in order
	EventBatches  int
	AcksDelivered int // checkpoint acknowledgements (operators and source runners) delivered to the job so far
	Kills         int
	DeadCalls     int // delivered calls that failed because an endpoint is dead (since the harness last reset it)
	Ticks         int
	Applied       map[string]int // record id/key -> times applied in the current timeline (informational)
	LastCompleted uint64
	Restores      int // deploys that carried a checkpoint
	stateLoaded   int // handler invocations after a restore that were given non-empty state
	SavepointID   uint64
}

var seq int

// New prepares a cluster (call inside the scheduled body).
func New(c *mc.Ctx, cfg *Config) *Cluster {
	seq++
	cl := &Cluster{C: c, Cfg: cfg, Base: fmt.Sprintf("/x%d", seq), Root: dkvh.NewFS(), Loc: jobh.NewMemLoc(), Clock: jobh.NewClock(), Delivered: map[string]int{}, Applied: map[string]int{}}
	cl.src = &vsrc{cl: cl}
	if cfg.QueuedSnapshotWrites {
		cl.Loc.BeforeWrite = func(path string) {
			if strings.HasSuffix(path, ".snapshot") {
				cl.call("job", "job", "StorageWrite("+path+")")
			}
		}
	}
	storage.VerifRegisterFS("memory://"+cl.Base, func(loc string) storage.FileSystem {
		return cl.Root.WithWorkingDir(strings.TrimPrefix(loc, "memory://"))
	})
	return cl
}

// Close releases process-global registrations.
func (cl *Cluster) Close() { storage.VerifRegisterFS("memory://"+cl.Base, nil) }

func (cl *Cluster) failf(format string, a ...any) {
	cl.Failures = append(cl.Failures, fmt.Sprintf(format, a...))
}

// ---- network

// call queues a remote call and blocks until the driver delivers it.
func (cl *Cluster) call(from, to, label string) error {
	rc := &rpcCall{label: label, from: from, to: to, go_: make(chan struct{})}
	cl.pending = append(cl.pending, rc)
	shim.Recv(rc.go_)
	if rc.failed || !cl.nodeAlive(from) || !cl.nodeAlive(to) {
		return errors.New("unavailable: " + label)
	}
	return nil
}

func (cl *Cluster) nodeAlive(id string) bool {
	if id == "job" {
		return true
	}
	if strings.HasPrefix(id, "job#") {
		return id == fmt.Sprintf("job#%d", cl.jobGen)
	}
	for _, w := range cl.workers {
		if w.opID == id || w.srID == id {
			return w.alive
		}
	}
	return false
}

func (cl *Cluster) findOp(id string) *worker {
	for _, w := range cl.workers {
		if w.opID == id {
			return w
		}
	}
	return nil
}

func (cl *Cluster) findSR(id string) *worker {
	for _, w := range cl.workers {
		if w.srID == id {
			return w
		}
	}
	return nil
}

type jobProxy struct {
	cl   *Cluster
	from string
}

func (p *jobProxy) RegisterOperator(ctx context.Context, id *jobpb.NodeIdentity) error {
	if err := p.cl.call(p.from, "job", "RegisterOperator("+id.Id+")"); err != nil {
		return err
	}
	p.cl.Job.HandleRegisterOperator(id)
	return nil
}
func (p *jobProxy) DeregisterOperator(ctx context.Context, id *jobpb.NodeIdentity) error {
	if err := p.cl.call(p.from, "job", "DeregisterOperator("+id.Id+")"); err != nil {
		return err
	}
	p.cl.Job.HandleDeregisterOperator(id)
	return nil
}
func (p *jobProxy) RegisterSourceRunner(ctx context.Context, id *jobpb.NodeIdentity) error {
	if err := p.cl.call(p.from, "job", "RegisterSourceRunner("+id.Id+")"); err != nil {
		return err
	}
	p.cl.Job.HandleRegisterSourceRunner(id)
	return nil
}
func (p *jobProxy) DeregisterSourceRunner(ctx context.Context, id *jobpb.NodeIdentity) error {
	if err := p.cl.call(p.from, "job", "DeregisterSourceRunner("+id.Id+")"); err != nil {
		return err
	}
	p.cl.Job.HandleDeregisterSourceRunner(id)
	return nil
}
func (p *jobProxy) OperatorCheckpointComplete(ctx context.Context, req *snapshotpb.OperatorCheckpoint) error {
	if err := p.cl.call(p.from, "job", fmt.Sprintf("OperatorCheckpointComplete(%s,%d)", req.OperatorId, req.CheckpointId)); err != nil {
		return err
	}
	p.cl.AcksDelivered++
	return p.cl.Job.HandleOperatorCheckpointComplete(ctx, req)
}
func (p *jobProxy) OnSourceRunnerCheckpointComplete(ctx context.Context, req *jobpb.SourceRunnerCheckpointCompleteRequest) error {
	if err := p.cl.call(p.from, "job", fmt.Sprintf("SourceRunnerCheckpointComplete(%s,%d)", req.SourceRunnerId, req.CheckpointId)); err != nil {
		return err
	}
	p.cl.AcksDelivered++
	return p.cl.Job.HandleSourceRunnerCheckpointComplete(ctx, req)
}
func (p *jobProxy) NotifySplitsFinished(ctx context.Context, srID string, splitIDs []string) error {
	if err := p.cl.call(p.from, "job", "NotifySplitsFinished("+srID+")"); err != nil {
		return err
	}
	return p.cl.Job.HandleNotifySplitsFinished(srID, splitIDs)
}

type opProxy struct {
	cl     *Cluster
	from   string
	target string
}

func (p *opProxy) ID() string   { return p.target }
func (p *opProxy) Host() string { return "h" }
func (p *opProxy) HandleEventBatch(ctx context.Context, batch []*workerpb.Event) error {
	var kinds []string
	for _, e := range batch {
		switch ev := e.Event.(type) {
		case *workerpb.Event_KeyedEvent:
			kinds = append(kinds, string(ev.KeyedEvent.Value)+"/"+string(ev.KeyedEvent.Key))
		case *workerpb.Event_Watermark:
			kinds = append(kinds, "wm")
		case *workerpb.Event_CheckpointBarrier:
			kinds = append(kinds, fmt.Sprintf("barrier%d", ev.CheckpointBarrier.CheckpointId))
		case *workerpb.Event_SourceComplete:
			kinds = append(kinds, "complete")
		}
	}
	if err := p.cl.call(p.from, p.target, fmt.Sprintf("HandleEventBatch(%s->%s: %s)", p.from, p.target, strings.Join(kinds, " "))); err != nil {
		return err
	}
	p.cl.EventBatches++
	w := p.cl.findOp(p.target)
	for _, e := range batch {
		if err := w.op.HandleEvent(ctx, p.from, e); err != nil {
			return err
		}
	}
	return nil
}
func (p *opProxy) Deploy(ctx context.Context, req *workerpb.DeployOperatorRequest) error {
	if err := p.cl.call(p.from, p.target, "DeployOperator("+p.target+")"); err != nil {
		return err
	}
	if len(req.Checkpoints) > 0 {
		p.cl.Restores++
	}
	return p.cl.findOp(p.target).op.HandleDeploy(ctx, req, &embedded.RecordingSink{})
}
func (p *opProxy) UpdateRetainedCheckpoints(ctx context.Context, ids []uint64) error {
	if err := p.cl.call(p.from, p.target, fmt.Sprintf("UpdateRetainedCheckpoints(%s,%v)", p.target, ids)); err != nil {
		return err
	}
	return p.cl.findOp(p.target).op.HandleRemoveCheckpoints(ctx, &workerpb.UpdateRetainedCheckpointsRequest{CheckpointIds: ids})
}
func (p *opProxy) NeedsTable(ctx context.Context, uri string) (bool, error) {
	if err := p.cl.call(p.from, p.target, "NeedsTable("+p.target+")"); err != nil {
		return false, err
	}
	return p.cl.findOp(p.target).op.HandleNeedsTable(uri), nil
}

type srProxy struct {
	cl     *Cluster
	target string
}

func (p *srProxy) ID() string   { return p.target }
func (p *srProxy) Host() string { return "h" }
func (p *srProxy) Deploy(ctx context.Context, req *workerpb.DeploySourceRunnerRequest) error {
	if err := p.cl.call("job", p.target, "DeploySourceRunner("+p.target+")"); err != nil {
		return err
	}
	return p.cl.findSR(p.target).sr.HandleDeploy(ctx, req)
}
func (p *srProxy) AssignSplits(ctx context.Context, splits []*workerpb.SourceSplit) error {
	var ss []string
	for _, s := range splits {
		ss = append(ss, s.SplitId+"@"+string(s.Cursor))
	}
	if err := p.cl.call("job", p.target, fmt.Sprintf("AssignSplits(%s,%v)", p.target, ss)); err != nil {
		return err
	}
	return p.cl.findSR(p.target).sr.HandleAssignSplits(splits)
}
func (p *srProxy) StartCheckpoint(ctx context.Context, id uint64) error {
	if err := p.cl.call("job", p.target, fmt.Sprintf("StartCheckpoint(%s,%d)", p.target, id)); err != nil {
		return err
	}
	p.cl.findSR(p.target).sr.HandleStartCheckpoint(ctx, id)
	return nil
}

// ---- source

type vsrc struct{ cl *Cluster }

func (s *vsrc) Validate() error                   { return nil }
func (s *vsrc) ProtoMessage() *jobconfigpb.Source { return &jobconfigpb.Source{} }
func (s *vsrc) NewSourceReader(connectors.SourceReaderHooks) connectors.SourceReader {
	r := &reader{cl: s.cl, cursors: map[string]int{}}
	s.cl.readers = append(s.cl.readers, r)
	return r
}
func (s *vsrc) NewSourceSplitter(srIDs []string, hooks connectors.SourceSplitterHooks, errChan chan<- error) connectors.SourceSplitter {
	return &splitter{cl: s.cl, srIDs: srIDs, hooks: hooks}
}

type splitter struct {
	connectors.UnimplementedSourceSplitter
	cl    *Cluster
	srIDs []string
	hooks connectors.SourceSplitterHooks
}

func (s *splitter) IsSourceSplitter()                     {}
func (s *splitter) Close() error                          { return nil }
func (s *splitter) Checkpoint() []byte                    { return []byte("vsrc") }
func (s *splitter) NotifySplitsFinished(string, []string) {}
func (s *splitter) Start(ckpt *snapshotpb.SourceCheckpoint) error {
	cursors := map[string]string{}
	for _, st := range ckpt.GetSplitStates() {
		p := strings.SplitN(string(st), "=", 2)
		if prev, dup := cursors[p[0]]; dup && prev != p[1] {
			s.cl.failf("the restored checkpoint holds two positions for split %s: %s and %s", p[0], prev, p[1])
		}
		cursors[p[0]] = p[1]
	}
	as := map[string][]*workerpb.SourceSplit{}
	for i, id := range s.cl.Cfg.SplitOrder {
		r := s.srIDs[i%len(s.srIDs)]
		as[r] = append(as[r], &workerpb.SourceSplit{SplitId: id, Cursor: []byte(cursors[id])})
	}
	for _, r := range s.srIDs {
		if as[r] == nil {
			as[r] = []*workerpb.SourceSplit{}
		}
	}
	s.hooks.AssignSplits(as)
	return nil
}

type reader struct {
	cl      *Cluster
	cursors map[string]int
	order   []string
	rr      int
}

func (r *reader) AssignSplits(splits []*workerpb.SourceSplit) error {
	for _, s := range splits {
		r.order = append(r.order, s.SplitId)
		n := 0
		fmt.Sscan(string(s.Cursor), &n)
		r.cursors[s.SplitId] = n
	}
	return nil
}
func (r *reader) ReadEvents() ([][]byte, error) {
	var out [][]byte
	for tries := 0; tries < len(r.order) && len(out) == 0; tries++ {
		split := r.order[r.rr%len(r.order)]
		r.rr++
		recs := r.cl.Cfg.Splits[split]
		for len(out) < r.cl.Cfg.ReadSize && r.cursors[split] < len(recs) {
			out = append(out, recs[r.cursors[split]].encode())
			r.cursors[split]++
		}
	}
	for _, s := range r.order {
		if r.cursors[s] < len(r.cl.Cfg.Splits[s]) {
			return out, nil
		}
	}
	return out, connectors.ErrEndOfInput
}
func (r *reader) Checkpoint() [][]byte {
	var out [][]byte
	for _, s := range r.order {
		out = append(out, []byte(fmt.Sprintf("%s=%d", s, r.cursors[s])))
	}
	return out
}

// ---- handler: the state of a key is the set of records applied to it

type handler struct {
	cl *Cluster
	id string
}

func (h *handler) KeyEventBatch(ctx context.Context, events [][]byte) ([][]*handlerpb.KeyedEvent, error) {
	out := make([][]*handlerpb.KeyedEvent, len(events))
	for i, e := range events {
		r := decode(e)
		for _, k := range r.Keys {
			out[i] = append(out[i], &handlerpb.KeyedEvent{Key: []byte(k), Value: []byte(r.ID()), Timestamp: timestamppb.New(time.Unix(int64(r.Idx+1), 0))})
		}
	}
	return out, nil
}

func (h *handler) ProcessEventBatch(ctx context.Context, req *handlerpb.ProcessEventBatchRequest) (*handlerpb.ProcessEventBatchResponse, error) {
	cl := h.cl
	state := map[string]map[string]bool{}
	for _, ks := range req.KeyStates {
		k := string(ks.Key)
		if state[k] != nil {
			cl.failf("handler %s: key %q appears twice in KeyStates", h.id, k)
		}
		state[k] = map[string]bool{}
		for _, ns := range ks.StateEntryNamespaces {
			if ns.Namespace != "e" {
				cl.failf("handler %s: key %q: foreign namespace %q in its state", h.id, k, ns.Namespace)
			}
			for _, e := range ns.Entries {
				state[k][string(e.Key)] = true
			}
		}
		if len(state[k]) > 0 && cl.Restores > 0 {
			cl.stateLoaded++
		}
	}
	results := map[string]*handlerpb.KeyResult{}
	var order []string
	for _, ev := range req.Events {
		ke, ok := ev.Event.(*handlerpb.Event_KeyedEvent)
		if !ok {
			continue
		}
		k, id := string(ke.KeyedEvent.Key), string(ke.KeyedEvent.Value)
		if state[k] == nil {
			cl.failf("handler %s: event %s of key %q arrived without the key's state", h.id, id, k)
			state[k] = map[string]bool{}
		}
		if state[k][id] {
			cl.failf("record %s is applied to the state of key %q a second time (handler %s)", id, k, h.id)
		}
		// every earlier record of the same split with this key must already be in the state
		p := strings.SplitN(id, "#", 2)
		idx := 0
		fmt.Sscan(p[1], &idx)
		for _, r := range cl.Cfg.Splits[p[0]][:idx] {
			for _, rk := range r.Keys {
				if rk == k && !state[k][r.ID()] {
					cl.failf("record %s reaches the state of key %q although the earlier record %s of the same split is not in it: its effect was lost or reordered (handler %s)", id, k, r.ID(), h.id)
				}
			}
		}
		if own := refs.OwnerIndex([]byte(k), cl.Cfg.KeyGroups, cl.Cfg.Workers); cl.opIndex(h.id) != own {
			cl.failf("key %q was routed to operator %s (index %d), its key group belongs to operator index %d", k, h.id, cl.opIndex(h.id), own)
		}
		state[k][id] = true
		cl.Applied[id+"/"+k]++
		r := results[k]
		if r == nil {
			r = &handlerpb.KeyResult{Key: []byte(k), StateMutationNamespaces: []*handlerpb.StateMutationNamespace{{Namespace: "e"}}}
			results[k] = r
			order = append(order, k)
		}
		r.StateMutationNamespaces[0].Mutations = append(r.StateMutationNamespaces[0].Mutations,
			&handlerpb.StateMutation{Mutation: &handlerpb.StateMutation_Put{Put: &handlerpb.PutMutation{Key: []byte(id), Value: []byte("1")}}})
	}
	resp := &handlerpb.ProcessEventBatchResponse{}
	for _, k := range order {
		resp.KeyResults = append(resp.KeyResults, results[k])
	}
	return resp, nil
}

// opIndex is the index of the operator in the current assembly (sorted ids, as the job sorts them).
func (cl *Cluster) opIndex(opID string) int {
	var ids []string
	for _, w := range cl.workers {
		if w.alive {
			ids = append(ids, w.opID)
		}
	}
	sort.Strings(ids)
	for i, id := range ids {
		if id == opID {
			return i
		}
	}
	return -1
}

// ---- nodes

// StartJob creates (or re-creates, over the same storage) the job.
func (cl *Cluster) StartJob(savepointURI string) {
	cl.jobGen++
	job, err := jobs.New(&jobs.NewParams{
		JobConfig:    &config.Config{WorkerCount: cl.Cfg.Workers, KeyGroupCount: cl.Cfg.KeyGroups, WorkingStorageLocation: "memory://" + cl.Base + "/dkv", Sources: []connectors.SourceConfig{cl.src}},
		SavepointURI: savepointURI, Clock: cl.Clock, HeartbeatDeadline: 5 * time.Second, Store: &UnifiedLoc{MemLoc: cl.Loc, DKV: cl.Root}, ErrChan: make(chan error, 16),
		OperatorFactory: func(senderID string, node *jobpb.NodeIdentity) proto.Operator {
			return &opProxy{cl: cl, from: "job", target: node.Id}
		},
		SourceRunnerFactory: func(node *jobpb.NodeIdentity) proto.SourceRunner { return &srProxy{cl: cl, target: node.Id} },
	})
	if err != nil {
		cl.failf("jobs.New: %v", err)
		return
	}
	cl.Job = job
}

// AddWorker starts a fresh worker (an operator and a source runner) and lets it register.
func (cl *Cluster) AddWorker() {
	cl.nextGen++
	w := &worker{id: fmt.Sprintf("%02d", cl.nextGen), alive: true}
	w.opID, w.srID = "op"+w.id, "sr"+w.id
	w.h = &handler{cl: cl, id: w.opID}
	w.clock = [2]*jobh.Clock{jobh.NewClock(), jobh.NewClock()}
	ctx, cancel := context.WithCancel(context.Background())
	w.cancel = cancel
	w.op = operator.NewOperator(operator.NewOperatorParams{ID: w.opID, Host: "h", UserHandler: w.h, Job: &jobProxy{cl: cl, from: w.opID}, Clock: w.clock[0], EventBatching: cl.Cfg.Batching,
		NeighborOperatorFactory: func(senderID string, node *jobpb.NodeIdentity) proto.Operator {
			return &opProxy{cl: cl, from: senderID, target: node.Id}
		}})
	w.sr = sourcerunner.New(sourcerunner.NewParams{Host: "h", UserHandler: w.h, Job: &jobProxy{cl: cl, from: w.srID}, Clock: w.clock[1], EventBatching: cl.Cfg.Batching,
		SourceReaderFactory: func(*jobconfigpb.Source) connectors.SourceReader {
			return cl.src.NewSourceReader(connectors.SourceReaderHooks{})
		},
		OperatorFactory: func(senderID string, node *jobpb.NodeIdentity) proto.Operator {
			return &opProxy{cl: cl, from: senderID, target: node.Id}
		}})
	w.sr.ID = w.srID
	cl.workers = append(cl.workers, w)
	shim.Go(func() { w.op.Start(ctx) })
	shim.Go(func() { w.sr.Start(ctx) })
}

// Heartbeat makes every live worker register again (its periodic registration).
func (cl *Cluster) Heartbeat() {
	for _, w := range cl.workers {
		if !w.alive {
			continue
		}
		for _, c := range w.clock {
			if c.Active("register") {
				shim.Go(func() { c.Tick("register") })
			}
		}
	}
}

// Kill halts a worker: its loops stop, calls from and to it fail from now on.
func (cl *Cluster) Kill(i int) {
	w := cl.liveWorkers()[i]
	w.alive = false
	w.op.Halt()
	w.sr.Halt()
	w.cancel()
	for _, rc := range cl.pending {
		if rc.from == w.opID || rc.from == w.srID || rc.to == w.opID || rc.to == w.srID {
			rc.failed = true
		}
	}
	cl.Kills++
}

func (cl *Cluster) liveWorkers() []*worker {
	var out []*worker
	for _, w := range cl.workers {
		if w.alive {
			out = append(out, w)
		}
	}
	return out
}

// Quiesce lets every component run until it blocks (virtual time does not reach any timer of
// the components: batch time-outs are 10 ms, the watermark ticker 200 ms).
func (cl *Cluster) Quiesce() { shim.Sleep(time.Millisecond) }

// Pending lists the labels of the queued calls.
func (cl *Cluster) Pending() []string {
	var out []string
	for _, rc := range cl.pending {
		out = append(out, rc.label)
	}
	return out
}

// Deliver lets the i-th queued call proceed.
func (cl *Cluster) Deliver(i int) string {
	rc := cl.pending[i]
	cl.pending = append(cl.pending[:i:i], cl.pending[i+1:]...)
	name := rc.label
	if j := strings.IndexByte(name, '('); j > 0 {
		cl.Delivered[name[:j]]++
	}
	cl.Calls = append(cl.Calls, rc.label)
	if rc.failed || !cl.nodeAlive(rc.from) || !cl.nodeAlive(rc.to) {
		cl.DeadCalls++
	}
	shim.Close(rc.go_)
	return rc.label
}

// InputConsumed reports whether the readers of the current deployment have read every record
// of every split (readers are created anew at each deploy; the newest reader of a split counts).
func (cl *Cluster) InputConsumed() bool {
	pos := map[string]int{}
	for _, r := range cl.readers { // later readers overwrite earlier ones
		for _, s := range r.order {
			pos[s] = r.cursors[s]
		}
	}
	for s, recs := range cl.Cfg.Splits {
		if pos[s] < len(recs) {
			return false
		}
	}
	return true
}

// CompletedCheckpoint returns the newest snapshot in the job's storage.
func (cl *Cluster) CompletedCheckpoint() *snapshotpb.JobCheckpoint {
	var best *snapshotpb.JobCheckpoint
	for name, data := range cl.Loc.Snapshot() {
		if !strings.HasSuffix(name, ".snapshot") {
			continue
		}
		var snap snapshotpb.JobCheckpoint
		if gproto.Unmarshal(data, &snap) == nil && (best == nil || snap.Id > best.Id) {
			s := snap
			best = &s
		}
	}
	return best
}

type sharedOwnership struct{}

func (sharedOwnership) OwnsKey([]byte) bool { return true }
func (sharedOwnership) ExclusivelyOwnsTable(string, []byte, []byte) (bool, error) {
	return false, nil
}

// StateOf reads the keyed state held by a job checkpoint: key -> applied record ids, per operator.
// Only entries inside the operator's key-group range count (a restored table may hold foreign
// groups that the operator does not own and never serves).
func (cl *Cluster) StateOf(snap *snapshotpb.JobCheckpoint) (map[string]map[string]bool, []string) {
	out := map[string]map[string]bool{}
	var errs []string
	for _, oc := range snap.OperatorCheckpoints {
		func() {
			defer func() {
				if r := recover(); r != nil {
					txt, ok := dkvh.PanicText(r)
					if !ok {
						panic(r)
					}
					errs = append(errs, fmt.Sprintf("opening the DKV checkpoint of operator %s panics: %s", oc.OperatorId, txt))
				}
			}()
			db := dkv.Open(dkv.DBOptions{FileSystem: cl.Root.WithWorkingDir(cl.Base + "/probe"), DataOwnership: sharedOwnership{}, MemTableSize: 1 << 20},
				[]recovery.CheckpointHandle{{CheckpointID: oc.CheckpointId, URI: oc.DkvFileUri}})
			var err error
			for e := range db.ScanPrefix(nil, &err) {
				k := e.Key()
				if len(k) < 7 || k[2] != 0x00 {
					continue
				}
				kg := int(binary.BigEndian.Uint16(k[:2]))
				if kg < int(oc.KeyGroupRange.Start) || kg >= int(oc.KeyGroupRange.End) {
					continue
				}
				l := binary.BigEndian.Uint32(k[3:7])
				subject := string(k[7 : 7+l])
				rest := k[7+l:]
				id := string(rest[1+int(rest[0]):])
				if out[subject] == nil {
					out[subject] = map[string]bool{}
				}
				if out[subject][id] {
					errs = append(errs, fmt.Sprintf("record %s of key %q is held by two operators' checkpoints", id, subject))
				}
				out[subject][id] = true
				if want := uint32(kg); refs.Murmur3([]byte(subject), 0)%uint32(cl.Cfg.KeyGroups) != want {
					errs = append(errs, fmt.Sprintf("state of key %q is stored under key group %d", subject, kg))
				}
			}
			if err != nil {
				errs = append(errs, fmt.Sprintf("scan of operator %s's checkpoint: %v", oc.OperatorId, err))
			}
		}()
	}
	return out, errs
}

// ExpectedState is the failure-free fold: every record applied once to each of its keys.
func (cl *Cluster) ExpectedState(upTo map[string]int) map[string]map[string]bool {
	out := map[string]map[string]bool{}
	for split, recs := range cl.Cfg.Splits {
		for i, r := range recs {
			if upTo != nil && i >= upTo[split] {
				break
			}
			for _, k := range r.Keys {
				if out[k] == nil {
					out[k] = map[string]bool{}
				}
				out[k][r.ID()] = true
			}
		}
	}
	return out
}

// RenderState renders a state map canonically.
func RenderState(m map[string]map[string]bool) string {
	var ks []string
	for k, ids := range m {
		if len(ids) == 0 {
			continue
		}
		var is []string
		for id := range ids {
			is = append(is, id)
		}
		sort.Strings(is)
		ks = append(ks, fmt.Sprintf("%s:%v", k, is))
	}
	sort.Strings(ks)
	return strings.Join(ks, " ")
}

// Stop halts everything (end of an execution).
func (cl *Cluster) Stop() {
	for _, w := range cl.workers {
		if w.alive {
			w.alive = false
			w.op.Halt()
			w.sr.Halt()
			w.cancel()
		}
	}
	for _, rc := range cl.pending {
		rc.failed = true
		shim.Close(rc.go_)
	}
	cl.pending = nil
}

// StateLoaded reports handler invocations after a restore that were handed non-empty state.
func (cl *Cluster) StateLoaded() int { return cl.stateLoaded }

// WipeWorkingStorage deletes every DKV file and every job file outside the savepoints
// directory: what remains is what a savepoint must be self-contained with.
func (cl *Cluster) WipeWorkingStorage() {
	cl.Root.DeleteAll()
	for _, name := range cl.Loc.Names() {
		if !strings.HasPrefix(name, "savepoints/") {
			cl.Loc.Remove(name)
		}
	}
}

// ResetInput forgets the readers of the previous job (a new job starts its own).
func (cl *Cluster) ResetInput() { cl.readers = nil }

// CursorsOf decodes the split positions of a job checkpoint.
func CursorsOf(snap *snapshotpb.JobCheckpoint) map[string]int {
	out := map[string]int{}
	for _, sc := range snap.SourceCheckpoints {
		for _, st := range sc.SplitStates {
			p := strings.SplitN(string(st), "=", 2)
			n := 0
			fmt.Sscan(p[1], &n)
			out[p[0]] = n
		}
	}
	return out
}
