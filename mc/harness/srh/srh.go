// Package srh: a real sourcerunner.SourceRunner under the cooperative scheduler with a harness
// source reader, a harness handler (KeyEventBatch with latency), recording operators (with
// back-pressure) and a recording job. Shared by C04, C11 and C16.
package srh

import (
	"context"
	"fmt"
	"strings"
	"time"

	"google.golang.org/protobuf/types/known/timestamppb"
	"reduction.dev/reduction-protocol/handlerpb"
	"reduction.dev/reduction-protocol/jobconfigpb"
	"reduction.dev/reduction/batching"
	"reduction.dev/reduction/clocks"
	"reduction.dev/reduction/connectors"
	"reduction.dev/reduction/proto"
	"reduction.dev/reduction/proto/jobpb"
	"reduction.dev/reduction/proto/workerpb"
	"reduction.dev/reduction/workers/sourcerunner"
	"verif.local/mc/harness/schedh"
	"verif.local/mc/mc"
	"verif.local/mc/shim"
)

// Record is one source record: it yields the keyed events Keys (same timestamp).
type Record struct {
	Split string
	Idx   int
	TS    int64 // seconds
	Keys  []string
}

func (r Record) ID() string { return fmt.Sprintf("%s#%d", r.Split, r.Idx) }

func (r Record) encode() []byte {
	return []byte(fmt.Sprintf("%s|%d|%d|%s", r.Split, r.Idx, r.TS, strings.Join(r.Keys, ",")))
}

func decode(b []byte) Record {
	p := strings.SplitN(string(b), "|", 4)
	var r Record
	r.Split = p[0]
	fmt.Sscan(p[1], &r.Idx)
	fmt.Sscan(p[2], &r.TS)
	if p[3] != "" {
		r.Keys = strings.Split(p[3], ",")
	}
	return r
}

// Config of one run.
type Config struct {
	Splits     map[string][]Record // split id -> records in split order
	SplitOrder []string
	ReadSize   int // records returned per ReadEvents call
	Operators  int
	KeyGroups  int
	Batching   batching.EventBatcherParams
	// Barriers: checkpoint ids; barrier i is requested by a harness thread after the reader has
	// handed out BarrierAfterReads[i] read calls (the request then races with everything else).
	Barriers          []uint64
	BarrierAfterReads []int
	OpLatency         time.Duration // virtual time one HandleEventBatch call of an operator takes
	Horizon           time.Duration // virtual run time (default 450ms: two watermark ticks)
}

// Item is one element of an operator's input stream.
type Item struct {
	Kind    byte // 'e' keyed event, 'w' watermark, 'b' barrier, 'c' source complete
	Key     string
	Rec     string // record id for keyed events
	TS      int64  // event timestamp / watermark, unix nanoseconds (meaningless for the zero time)
	T       time.Time
	Barrier uint64
}

// Obs is what the run observed.
type Obs struct {
	Streams     [][]Item // per operator, in HandleEventBatch order
	Checkpoints []*jobpb.SourceRunnerCheckpointCompleteRequest
	ReadCalls   int
	Errors      []string
	Complete    bool // every operator got the source-complete event
	Sched       *shim.Sched
}

type reader struct {
	cfg     *Config
	cursors map[string]int
	order   []string
	rr      int
	obs     *Obs
	onRead  func(n int)
}

func (r *reader) AssignSplits(splits []*workerpb.SourceSplit) error {
	for _, s := range splits {
		r.order = append(r.order, s.SplitId)
		n := 0
		fmt.Sscan(string(s.Cursor), &n)
		r.cursors[s.SplitId] = n
	}
	return nil
}

func (r *reader) ReadEvents() ([][]byte, error) {
	shim.Point("source-read")
	r.obs.ReadCalls++
	var out [][]byte
	for tries := 0; tries < len(r.order) && len(out) == 0; tries++ {
		split := r.order[r.rr%len(r.order)]
		r.rr++
		recs := r.cfg.Splits[split]
		for len(out) < r.cfg.ReadSize && r.cursors[split] < len(recs) {
			out = append(out, recs[r.cursors[split]].encode())
			r.cursors[split]++
		}
	}
	if r.onRead != nil {
		r.onRead(r.obs.ReadCalls)
	}
	done := true
	for _, s := range r.order {
		done = done && r.cursors[s] >= len(r.cfg.Splits[s])
	}
	if done {
		return out, connectors.ErrEndOfInput
	}
	return out, nil
}

func (r *reader) Checkpoint() [][]byte {
	var out [][]byte
	for _, s := range r.order {
		out = append(out, []byte(fmt.Sprintf("%s=%d", s, r.cursors[s])))
	}
	return out
}

type handler struct{}

func (handler) ProcessEventBatch(context.Context, *handlerpb.ProcessEventBatchRequest) (*handlerpb.ProcessEventBatchResponse, error) {
	panic("mc: harness: source runners do not call ProcessEventBatch")
}

func (handler) KeyEventBatch(ctx context.Context, events [][]byte) ([][]*handlerpb.KeyedEvent, error) {
	shim.Point("keyevent-latency")
	out := make([][]*handlerpb.KeyedEvent, len(events))
	for i, e := range events {
		r := decode(e)
		for _, k := range r.Keys {
			out[i] = append(out[i], &handlerpb.KeyedEvent{Key: []byte(k), Value: []byte(r.ID()), Timestamp: timestamppb.New(time.Unix(r.TS, 0))})
		}
	}
	return out, nil
}

type recOp struct {
	proto.UnimplementedOperator
	idx int
	obs *Obs
	got chan struct{}
	lat time.Duration
}

func (o *recOp) ID() string   { return fmt.Sprintf("op%d", o.idx) }
func (o *recOp) Host() string { return "h" }
func (o *recOp) HandleEventBatch(ctx context.Context, batch []*workerpb.Event) error {
	shim.Point("operator-backpressure")
	if o.lat > 0 {
		defer shim.Sleep(o.lat) // the call returns after the operator's (virtual) processing time
	}
	complete := false
	for _, ev := range batch {
		switch e := ev.Event.(type) {
		case *workerpb.Event_KeyedEvent:
			o.obs.Streams[o.idx] = append(o.obs.Streams[o.idx], Item{Kind: 'e', Key: string(e.KeyedEvent.Key), Rec: string(e.KeyedEvent.Value), TS: e.KeyedEvent.Timestamp.AsTime().UnixNano(), T: e.KeyedEvent.Timestamp.AsTime()})
		case *workerpb.Event_Watermark:
			o.obs.Streams[o.idx] = append(o.obs.Streams[o.idx], Item{Kind: 'w', TS: e.Watermark.Timestamp.AsTime().UnixNano(), T: e.Watermark.Timestamp.AsTime()})
		case *workerpb.Event_CheckpointBarrier:
			o.obs.Streams[o.idx] = append(o.obs.Streams[o.idx], Item{Kind: 'b', Barrier: e.CheckpointBarrier.CheckpointId})
		case *workerpb.Event_SourceComplete:
			o.obs.Streams[o.idx] = append(o.obs.Streams[o.idx], Item{Kind: 'c'})
			complete = true
		}
	}
	if complete {
		shim.Send(o.got, func() { o.got <- struct{}{} })
	}
	return nil
}

type job struct {
	proto.NoopJob
	obs        *Obs
	registered chan struct{}
	once       bool
}

func (j *job) RegisterSourceRunner(ctx context.Context, id *jobpb.NodeIdentity) error {
	if !j.once {
		j.once = true
		shim.Send(j.registered, func() { j.registered <- struct{}{} })
	}
	return nil
}

func (j *job) OnSourceRunnerCheckpointComplete(ctx context.Context, req *jobpb.SourceRunnerCheckpointCompleteRequest) error {
	shim.Point("rpc:OnSourceRunnerCheckpointComplete")
	j.obs.Checkpoints = append(j.obs.Checkpoints, req)
	return nil
}

// Run executes one scheduled run of the source runner to the end of its input.
func Run(c *mc.Ctx, cfg *Config, opts schedh.Opts) *Obs {
	obs := &Obs{Streams: make([][]Item, cfg.Operators)}
	if cfg.Horizon == 0 {
		cfg.Horizon = 450 * time.Millisecond
	}
	obs.Sched = schedh.Run(c, opts, func() {
		ctx, cancel := context.WithCancel(context.Background())
		j := &job{obs: obs, registered: make(chan struct{}, 1)}
		completeCh := make(chan struct{}, cfg.Operators)
		ops := make([]*recOp, cfg.Operators)
		for i := range ops {
			ops[i] = &recOp{idx: i, obs: obs, got: completeCh, lat: cfg.OpLatency}
		}
		barrierReq := make([]chan struct{}, len(cfg.Barriers))
		for i := range barrierReq {
			barrierReq[i] = make(chan struct{}, 1)
		}
		rd := &reader{cfg: cfg, cursors: map[string]int{}, obs: obs}
		rd.onRead = func(n int) {
			for i, after := range cfg.BarrierAfterReads {
				if after == n {
					shim.Send(barrierReq[i], func() { barrierReq[i] <- struct{}{} })
				}
			}
		}
		sr := sourcerunner.New(sourcerunner.NewParams{Host: "h", UserHandler: handler{}, Job: j, Clock: clocks.NewFrozenClock(),
			OperatorFactory: func(senderID string, node *jobpb.NodeIdentity) proto.Operator {
				var i int
				fmt.Sscanf(node.Id, "op%d", &i)
				return ops[i]
			},
			SourceReaderFactory: func(*jobconfigpb.Source) connectors.SourceReader { return rd },
			EventBatching:       cfg.Batching})
		sr.ID = "sr0"
		stopped := make(chan struct{})
		shim.Go(func() {
			if err := sr.Start(ctx); err != nil {
				obs.Errors = append(obs.Errors, "Start: "+err.Error())
			}
			shim.Close(stopped)
		})
		shim.Recv(j.registered)
		ids := make([]*jobpb.NodeIdentity, cfg.Operators)
		for i := range ids {
			ids[i] = &jobpb.NodeIdentity{Id: fmt.Sprintf("op%d", i), Host: "h"}
		}
		if err := sr.HandleDeploy(ctx, &workerpb.DeploySourceRunnerRequest{Operators: ids, KeyGroupCount: int32(cfg.KeyGroups), Sources: []*jobconfigpb.Source{{}}}); err != nil {
			obs.Errors = append(obs.Errors, "deploy: "+err.Error())
		}
		var splits []*workerpb.SourceSplit
		for _, s := range cfg.SplitOrder {
			splits = append(splits, &workerpb.SourceSplit{SplitId: s})
		}
		// barrier requests race with reading: each is issued by a thread of its own
		for i, id := range cfg.Barriers {
			if cfg.BarrierAfterReads[i] == 0 {
				sr.HandleStartCheckpoint(ctx, id) // before any split is assigned
				continue
			}
			shim.Go(func() {
				shim.Recv(barrierReq[i])
				sr.HandleStartCheckpoint(ctx, id)
			})
		}
		if err := sr.HandleAssignSplits(splits); err != nil {
			obs.Errors = append(obs.Errors, "assign: "+err.Error())
		}
		// the reader's end of input does not close the source channel in this code base, so no
		// source-complete event marks the end: run for a virtual second (five watermark ticks, every
		// batch time-out) and judge what has been delivered by then
		shim.Sleep(cfg.Horizon)
		// an early timer expiry is one of the explored deviations: the horizon may have been reached
		// while goroutines were still runnable. A few short sleeps more than the deviation budget
		// guarantee that everything runnable has run (and one more batch time-out has passed)
		// before the streams are judged.
		for i := 0; i < 6; i++ {
			shim.Sleep(5 * time.Millisecond)
		}
		obs.Complete = true
		cancel()
		shim.Recv(stopped)
	})
	return obs
}
