// Package c14: savepoints are self-contained and restore the checkpointed job state
// (DESIGN §5 C14). Cluster simulation with a storage location that spans job and DKV files.
package c14

import (
	"context"
	"fmt"
	"strings"
	"time"

	"reduction.dev/reduction/batching"
	"verif.local/mc/harness/cluster"
	"verif.local/mc/harness/refs"
	"verif.local/mc/harness/schedh"
	"verif.local/mc/mc"
	"verif.local/mc/report"
	"verif.local/mc/shim"
)

const keyGroups = 4

var keys = func() []string {
	var k0, k1 []string
	for c := 'a'; c <= 'z' && (len(k0) < 2 || len(k1) < 2); c++ {
		k := string(c)
		if refs.OwnerIndex([]byte(k), keyGroups, 2) == 0 {
			k0 = append(k0, k)
		} else {
			k1 = append(k1, k)
		}
	}
	return []string{k0[0], k1[0], k0[1], k1[1]}
}()

func rec(split string, idx int, ks ...string) cluster.Record {
	return cluster.Record{Split: split, Idx: idx, Keys: ks}
}

var input = map[string][]cluster.Record{
	"a": {rec("a", 0, keys[0]), rec("a", 1, keys[1]), rec("a", 2, keys[0]), rec("a", 3, keys[1]), rec("a", 4, keys[0], keys[1]), rec("a", 5, keys[2]), rec("a", 6, keys[0]), rec("a", 7, keys[3])},
	"b": {rec("b", 0, keys[0]), rec("b", 1, keys[1]), rec("b", 2, keys[2])},
}

type params struct {
	bound int
	chain bool // tiny memtables (tables in the savepoint) and a second savepoint taken by the restored job
}

func Run(k *report.Check) {
	k.Rule = "cluster simulation (real Job, operators, source runners; one storage namespace for job files and DKV files): W in {1,2} workers process two splits of 8+3 records; a savepoint is requested when s event batches have been delivered (s in {0,1,2,4,7}), with the periodic checkpoint tick before it, racing with it (tick first, savepoint while the checkpoint is pending: before any, after the first, or after all but one of its acknowledgements) or absent; operator acknowledgements in either order; RPCs are delivered oldest first plus at most `bound` out-of-order deliveries. Then every file outside the savepoints directory (all DKV files, all job checkpoints) is deleted and a new job is started from the savepoint URI with W' in {1,2} fresh workers. Oracle: the savepoint folds into a pending checkpoint (no second StartCheckpoint round, one id), the original job still finishes with the failure-free state, the restored job's handlers never see a record twice nor miss an earlier one, its final state read back from its DKV checkpoints equals the failure-free fold, and its source positions equal the savepoint's. A second part runs with memtables of a few entries (the savepoints then consist of table files) and lets the restored job take a savepoint of its own, from which a third job with W'' workers is started after another wipe. non-trivial = distinct (W, W', request point, tick relation, ack order) runs in which the restored job re-read input past the savepoint and was handed non-empty state"
	k.Assumptions = []string{"in-memory storage namespace standing for a shared directory / bucket", "interleavings inside components are the component checks' subject"}
	k.Budget(120, 1200)
	k.Parts(2)
	b := k.Pick(1, 2)
	k.ExploreSched("savepoint-chain/tables", mc.Config{Bound: 0, RecycleAfter: 1500, Deadline: k.Within(0.3)}, params{chain: true}, body)
	k.ExploreSched(fmt.Sprintf("savepoint/deviations<=%d", b), mc.Config{Bound: b, RecycleAfter: 1500}, params{bound: b}, body)
}

// run drives the cluster oldest-call-first until done() or the horizon; extra is consulted
// before every delivery.
func run(c *mc.Ctx, cl *cluster.Cluster, reverseAcks bool, maxEvents int, allowDeviation bool, extra func(pend []string) bool, done func(idle int) bool) bool {
	idle := 0
	for ev := 0; ev < maxEvents && len(cl.Failures) == 0; ev++ {
		cl.Quiesce()
		if len(cl.Failures) > 0 {
			return false
		}
		pend := cl.Pending()
		if extra != nil && extra(pend) {
			continue
		}
		if len(pend) == 0 {
			idle++
			if done(idle) {
				return true
			}
			shim.Sleep(250 * time.Millisecond)
			continue
		}
		onlyWM := true
		for _, l := range pend {
			onlyWM = onlyWM && strings.HasSuffix(l, ": wm)")
		}
		if onlyWM && done(idle) {
			return true
		}
		idx := 0
		if reverseAcks {
			last := -1
			idx = -1
			for i, l := range pend {
				if !strings.HasPrefix(l, "OperatorCheckpointComplete(") {
					idx = i
					break
				}
				last = i
			}
			if idx < 0 {
				idx = last
			}
		}
		if allowDeviation {
			if n := min(len(pend), 4); n > 1 {
				if d := c.Deviate(n); d > 0 {
					idx = d
					c.Op("deliver-out-of-order: %s", pend[idx])
				}
			}
		}
		l := cl.Deliver(idx)
		if !strings.HasSuffix(l, ": wm)") {
			idle = 0
		} else {
			idle++
		}
	}
	return false
}

func body(c *mc.Ctx) {
	p := c.Param.(params)
	w1 := 1 + c.Choose(2)
	w2 := 1 + c.Choose(2)
	w3 := 0
	early := false // chain: the restored job takes its savepoint as soon as it runs
	var reqAt, tickMode int
	if p.chain {
		// memtables of a few entries: the operators' checkpoints (and so the savepoints) consist of
		// table files, and an operator restored from two operators' checkpoints inherits the
		// tables of both (every database numbers its tables from zero)
		shim.SetGlobalTune("MemTableSize", uint64([]int{40, 120}[c.Choose(2)]))
		// level 0 is compacted late, so that inherited tables survive until the next savepoint
		shim.SetGlobalTune("L0Trigger", uint64([]int{4, 12}[c.Choose(2)]))
		defer shim.ClearGlobalTune()
		w3 = 1 + c.Choose(2)
		reqAt = []int{4, 7, 10}[c.Choose(3)]
		early = c.Choose(2) == 1
	} else {
		reqAt = []int{0, 1, 2, 4, 7}[c.Choose(5)]
		tickMode = c.Choose(5)
	}
	_ = tickMode // 0: no periodic tick before; 1: tick completes first (tick when reqAt-1 batches); 2: tick right before the request (savepoint folds into the pending checkpoint)
	reverseAcks := w1 > 1 && c.Choose(2) == 1
	cfg := &cluster.Config{KeyGroups: keyGroups, Splits: input, SplitOrder: []string{"a", "b"}, Workers: w1, ReadSize: 1, Batching: batching.EventBatcherParams{MaxSize: 1, MaxDelay: 10 * time.Millisecond}}
	if p.chain {
		c.Op("[chain: workers %d -> %d -> %d, memtable %d bytes, level-0 trigger %d, second savepoint %s]", w1, w2, w3, shim.TuneValue("MemTableSize"), shim.TuneValue("L0Trigger"), map[bool]string{true: "as soon as the restored job runs", false: "when the restored job has consumed its input"}[early])
	}
	c.Op("[workers %d -> %d; savepoint requested after %d event batches; periodic tick: %s; operator acks %s]", w1, w2, reqAt,
		[]string{"none", "one batch earlier", "immediately before the request", "before the request, which follows the checkpoint's first acknowledgement", "before the request, which follows all but one of the checkpoint's acknowledgements"}[tickMode], map[bool]string{true: "newest first", false: "in order"}[reverseAcks])
	var cl *cluster.Cluster
	var note, chainNote string
	var spID uint64
	var spErr error
	spDone := false
	schedh.Run(c, schedh.Opts{MaxSteps: 600000, NoAdvanceAlt: true, MaxAdvances: 4000, FixedSchedule: true}, func() {
		cl = cluster.New(c, cfg)
		defer cl.Close()
		cl.StartJob("")
		for i := 0; i < w1; i++ {
			cl.AddWorker()
		}
		requested, ticked := false, false
		acksAtTick := 0
		callsBefore := 0
		extra := func(pend []string) bool {
			if !cl.Clock.Active("checkpointing") {
				return false // the job is not running yet
			}
			if !ticked && tickMode == 1 && cl.EventBatches >= max(reqAt-1, 0) {
				ticked = true
				c.Op("tick")
				shim.Go(func() { cl.Clock.Tick("checkpointing") })
				return true
			}
			if !requested && cl.EventBatches >= reqAt {
				if tickMode >= 2 && !ticked {
					ticked = true
					callsBefore = len(cl.Calls)
					acksAtTick = cl.AcksDelivered
					c.Op("tick")
					shim.Go(func() { cl.Clock.Tick("checkpointing") })
					return true
				}
				// the request lands in the middle of the checkpoint's acknowledgements
				if need := map[int]int{3: 1, 4: 2*w1 - 1}[tickMode]; cl.AcksDelivered-acksAtTick < need {
					return false
				}
				requested = true
				if tickMode < 2 {
					callsBefore = len(cl.Calls)
				}
				c.Op("CreateSavepoint")
				shim.Go(func() {
					spID, spErr = cl.Job.HandleCreateSavepoint(context.Background())
					spDone = true
				})
				return true
			}
			return false
		}
		var spURI string
		// phase 1: until the savepoint exists
		ok := run(c, cl, reverseAcks, 500, p.bound > 0, extra, func(idle int) bool {
			if !spDone || spErr != nil {
				return spDone && spErr != nil
			}
			uri, err := cl.Job.HandleGetSavepointURI(context.Background(), spID)
			if err == nil {
				spURI = uri
				return true
			}
			return false
		})
		if spErr != nil {
			cl.Failures = append(cl.Failures, fmt.Sprintf("CreateSavepoint failed: %v", spErr))
		}
		if !ok && len(cl.Failures) == 0 {
			cl.Failures = append(cl.Failures, fmt.Sprintf("the savepoint was requested but never became available (requested=%v id=%d; queued: %v)", requested, spID, cl.Pending()))
		}
		if len(cl.Failures) > 0 {
			cl.Stop()
			return
		}
		// folding: exactly one StartCheckpoint round carries the savepoint's id, and when the
		// request met a pending checkpoint no other id was started
		rounds := map[string]int{}
		for _, l := range cl.Calls {
			if strings.HasPrefix(l, "StartCheckpoint(") {
				rounds[l[strings.LastIndexByte(l, ',')+1:len(l)-1]]++
			}
		}
		for id, n := range rounds {
			if n != w1 {
				cl.Failures = append(cl.Failures, fmt.Sprintf("%d StartCheckpoint calls carry checkpoint id %s, the assembly has %d source runners: more StartCheckpoint calls than one round per checkpoint (savepoint id %d)", n, id, w1, spID))
			}
		}
		if rounds[fmt.Sprint(spID)] == 0 {
			cl.Failures = append(cl.Failures, fmt.Sprintf("the savepoint reports checkpoint id %d, which was never started", spID))
		}
		_ = callsBefore
		// phase 1b: the original job is not disturbed: it finishes with the failure-free state
		finalTicked := false
		var base uint64
		ok = run(c, cl, reverseAcks, 500, false, nil, func(idle int) bool {
			if idle < 2 || !cl.InputConsumed() {
				return false
			}
			if !finalTicked {
				finalTicked = true
				if cp := cl.CompletedCheckpoint(); cp != nil {
					base = cp.Id
				}
				c.Op("tick(final)")
				shim.Go(func() { cl.Clock.Tick("checkpointing") })
				return false
			}
			cp := cl.CompletedCheckpoint()
			return cp != nil && cp.Id > base
		})
		if !ok && len(cl.Failures) == 0 {
			cl.Failures = append(cl.Failures, fmt.Sprintf("after the savepoint the original job did not finish its input and a final checkpoint (queued: %v)", cl.Pending()))
		}
		if len(cl.Failures) == 0 {
			got, errs := cl.StateOf(cl.CompletedCheckpoint())
			cl.Failures = append(cl.Failures, errs...)
			if g, w := cluster.RenderState(got), cluster.RenderState(cl.ExpectedState(nil)); g != w && len(errs) == 0 {
				cl.Failures = append(cl.Failures, fmt.Sprintf("the job that took the savepoint ends with state {%s}, the failure-free fold is {%s}", g, w))
			}
		}
		if len(cl.Failures) > 0 {
			cl.Stop()
			return
		}
		// phase 2: wipe the working storage, start a new job from the savepoint
		cl.Stop()
		cl.Quiesce()
		cl.WipeWorkingStorage()
		c.Op("wipe working storage; new job from %s with %d workers", strings.TrimPrefix(spURI, "savepoints/"), w2)
		cfg.Workers = w2
		cl.ResetInput()
		cl.Applied = map[string]int{}
		func() {
			defer func() {
				if r := recover(); r != nil {
					if s, ok := r.(string); ok && !strings.HasPrefix(s, "mc: ") {
						cl.Failures = append(cl.Failures, "starting the job from the savepoint panics: "+s)
						return
					}
					panic(r)
				}
			}()
			cl.StartJob(spURI)
		}()
		if len(cl.Failures) > 0 {
			return
		}
		for i := 0; i < w2; i++ {
			cl.AddWorker()
		}
		finalTicked = false
		base = spID
		ok = run(c, cl, false, 600, false, nil, func(idle int) bool {
			if early {
				// the restored job is running (its operators have loaded the savepoint's tables):
				// its own savepoint is requested now, before compaction rewrites what it inherited
				return cl.Clock.Active("checkpointing")
			}
			if idle < 2 || !cl.InputConsumed() || !cl.Clock.Active("checkpointing") {
				return false
			}
			if !finalTicked {
				finalTicked = true
				c.Op("tick(final, restored job)")
				shim.Go(func() { cl.Clock.Tick("checkpointing") })
				return false
			}
			cp := cl.CompletedCheckpoint()
			return cp != nil && cp.Id > base
		})
		if !ok && len(cl.Failures) == 0 {
			cl.Failures = append(cl.Failures, fmt.Sprintf("the job restored from the savepoint did not finish the input and a checkpoint (queued: %v)", cl.Pending()))
		}
		if len(cl.Failures) == 0 && !early {
			got, errs := cl.StateOf(cl.CompletedCheckpoint())
			cl.Failures = append(cl.Failures, errs...)
			if g, w := cluster.RenderState(got), cluster.RenderState(cl.ExpectedState(nil)); g != w && len(errs) == 0 {
				cl.Failures = append(cl.Failures, fmt.Sprintf("the job restored from the savepoint ends with state {%s}, the failure-free fold is {%s}", g, w))
			}
		}
		note = fmt.Sprint(cl.StateLoaded() > 0, cl.Restores)
		if p.chain && len(cl.Failures) == 0 {
			// second generation: the restored job (all input consumed) takes a savepoint of its own
			var id2 uint64
			var err2 error
			done2 := false
			c.Op("CreateSavepoint (by the restored job)")
			shim.Go(func() {
				id2, err2 = cl.Job.HandleCreateSavepoint(context.Background())
				done2 = true
			})
			var uri2 string
			ok = run(c, cl, false, 500, false, nil, func(idle int) bool {
				if !done2 || err2 != nil {
					return done2 && err2 != nil
				}
				uri, err := cl.Job.HandleGetSavepointURI(context.Background(), id2)
				if err == nil {
					uri2 = uri
					return true
				}
				return false
			})
			if err2 != nil {
				cl.Failures = append(cl.Failures, fmt.Sprintf("CreateSavepoint by the restored job failed: %v", err2))
			} else if !ok && len(cl.Failures) == 0 {
				cl.Failures = append(cl.Failures, fmt.Sprintf("the restored job's savepoint never became available (queued: %v)", cl.Pending()))
			}
			if len(cl.Failures) == 0 {
				cl.Stop()
				cl.Quiesce()
				cl.WipeWorkingStorage()
				ssts := 0
				for _, name := range cl.Loc.Names() {
					if strings.HasPrefix(name, strings.TrimSuffix(uri2, "job.savepoint")) && strings.HasSuffix(name, ".sst") {
						ssts++
					}
				}
				chainNote = fmt.Sprintf("%d table files in the second savepoint", ssts)
				if ssts > 0 {
					c.Note("second_generation_savepoints_with_table_files")
				}
				if ssts > 1 {
					c.Note("second_generation_savepoints_with_2plus_table_files")
				}
				c.Op("wipe working storage (%s); third job from %s with %d workers", chainNote, strings.TrimPrefix(uri2, "savepoints/"), w3)
				cfg.Workers = w3
				cl.ResetInput()
				cl.Applied = map[string]int{}
				func() {
					defer func() {
						if r := recover(); r != nil {
							if s, ok := r.(string); ok && !strings.HasPrefix(s, "mc: ") {
								cl.Failures = append(cl.Failures, "starting the job from the second savepoint panics: "+s)
								return
							}
							panic(r)
						}
					}()
					cl.StartJob(uri2)
				}()
				if len(cl.Failures) == 0 {
					for i := 0; i < w3; i++ {
						cl.AddWorker()
					}
					finalTicked = false
					base = id2
					ok = run(c, cl, false, 600, false, nil, func(idle int) bool {
						if idle < 2 || !cl.InputConsumed() || !cl.Clock.Active("checkpointing") {
							return false
						}
						if !finalTicked {
							finalTicked = true
							c.Op("tick(final, third job)")
							shim.Go(func() { cl.Clock.Tick("checkpointing") })
							return false
						}
						cp := cl.CompletedCheckpoint()
						return cp != nil && cp.Id > base
					})
					if !ok && len(cl.Failures) == 0 {
						cl.Failures = append(cl.Failures, fmt.Sprintf("the job restored from the second savepoint did not reach a checkpoint (queued: %v)", cl.Pending()))
					}
					if len(cl.Failures) == 0 {
						got, errs := cl.StateOf(cl.CompletedCheckpoint())
						cl.Failures = append(cl.Failures, errs...)
						if g, w := cluster.RenderState(got), cluster.RenderState(cl.ExpectedState(nil)); g != w && len(errs) == 0 {
							cl.Failures = append(cl.Failures, fmt.Sprintf("the job restored from the savepoint of the restored job ends with state {%s}, the failure-free fold is {%s}", g, w))
						}
					}
				}
			}
		}
		cl.Stop()
	})
	if len(cl.Failures) > 0 {
		sig := "savepoint"
		f := cl.Failures[0]
		switch {
		case strings.Contains(f, "a second time"):
			sig = "record-applied-twice-after-restore"
		case strings.Contains(f, "lost or reordered"):
			sig = "record-lost-after-restore"
		case strings.Contains(f, "more StartCheckpoint calls"), strings.Contains(f, "another checkpoint was started"):
			sig = "savepoint-not-folded"
		case strings.Contains(f, "never became available"), strings.Contains(f, "CreateSavepoint failed"):
			sig = "savepoint-not-created"
		case strings.Contains(f, "restored from the savepoint"), strings.Contains(f, "second savepoint"), strings.Contains(f, "restored job"):
			sig = "restored-job-wrong"
		case strings.Contains(f, "original job"), strings.Contains(f, "that took the savepoint"):
			sig = "original-job-disturbed"
		case strings.Contains(f, "panics"):
			sig = "restore-panics"
		}
		c.FailSig(sig, "%s", strings.Join(cl.Failures, "; "))
	}
	if p.chain && chainNote != "" {
		c.Nontrivial(fmt.Sprint("chain", w1, w2, w3, reqAt, early, reverseAcks, chainNote))
	}
	if cl.StateLoaded() > 0 {
		c.Note("restored_jobs_handed_non_empty_state")
		c.Nontrivial(fmt.Sprint(w1, w2, reqAt, tickMode, reverseAcks, note))
	}
	c.Outcome(fmt.Sprint(w1, w2, reqAt, tickMode, reverseAcks, note))
}
