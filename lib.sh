# Common environment and build steps for every check. Sourced by ./check and setup.sh.
# Everything is rebuilt from /repo's current working tree; /repo is never written to.

export VERIF=${VERIF:-/verif}
export REPO=${REPO:-/repo}
export BUILD=${VERIF_BUILD:-$VERIF/.build}
unset GOSUMDB GOTOOLCHAIN   # both break toolchain selection (go.mod wants go1.24.0 from the module cache)
export GOFLAGS=-mod=mod GOPROXY=off
# Resolve the go1.24.0 toolchain once and put it first on PATH: go/packages runs `go list`
# in directories without a go.mod, where the default go1.23.5 would not switch.
_gr=$(cd "$VERIF/mc" && go env GOROOT) && [ -x "$_gr/bin/go" ] && export PATH="$_gr/bin:$PATH"
export GOEXPERIMENT=synctest

PROTOS="proto/workerpb/worker.proto proto/jobpb/job.proto proto/e2epb/e2e.proto proto/snapshotpb/snapshot.proto connectors/kafka/kafkapb/kafka.proto connectors/kinesis/kinesispb/kinesis.proto"

log() { echo "[verif] $*" >&2; }

build_tools() {
  mkdir -p "$BUILD/bin"
  ( cd "$VERIF/tools" &&
    go build -o "$BUILD/bin/pbgen" ./pbgen &&
    go build -o "$BUILD/bin/instr" ./instr &&
    go build -o "$BUILD/bin/protoc-gen-go" google.golang.org/protobuf/cmd/protoc-gen-go &&
    go build -o "$BUILD/bin/protoc-gen-connect-go" connectrpc.com/connect/cmd/protoc-gen-connect-go ) || return 1
}

# gen_overlay <dir>: generate protobuf code from /repo's .proto files into <dir>/gen and
# write <dir>/overlay-gen.json mapping the files onto their /repo paths.
gen_overlay() {
  local d=$1
  rm -rf "$d/gen"; mkdir -p "$d/gen"
  [ -x "$BUILD/bin/pbgen" ] || build_tools || return 1
  "$BUILD/bin/pbgen" -root "$REPO" -out "$d/gen" \
     -protoc-gen-go "$BUILD/bin/protoc-gen-go" -protoc-gen-connect-go "$BUILD/bin/protoc-gen-connect-go" \
     $PROTOS >/dev/null || return 1
  python3 - "$d" "$REPO" <<'EOF'
import json, os, sys
d, repo = sys.argv[1], sys.argv[2]
rep = {}
for root, _, files in os.walk(os.path.join(d, "gen")):
    for f in files:
        p = os.path.join(root, f)
        rel = os.path.relpath(p, os.path.join(d, "gen"))
        rep[os.path.join(repo, rel)] = p
json.dump({"Replace": rep}, open(os.path.join(d, "overlay-gen.json"), "w"), indent=1)
EOF
}

# instr_overlay <dir> <mode>: instrument /repo (mode plain|sched) into <dir>/instr-<mode>, write
# <dir>/overlay-<mode>.json (generated protobuf + rewritten + added files).
instr_overlay() {
  local d=$1 mode=$2
  rm -rf "$d/instr-$mode"; mkdir -p "$d/instr-$mode"
  [ -x "$BUILD/bin/instr" ] || build_tools || return 1
  ( cd "$VERIF/mc" && "$BUILD/bin/instr" -mode "$mode" -dir "$REPO" -out "$d/instr-$mode" \
      -overlay "$d/overlay-gen.json" -add "$VERIF/mc/overlay_add" ./... ) >&2 || return 1
  cp "$d/instr-$mode/overlay.json" "$d/overlay-$mode.json"
}

# build_mcheck <mode>: (re)build the check binary against /repo's working tree.
build_mcheck() {
  local mode=$1
  gen_overlay "$BUILD" || { echo "INTERNAL-ERROR: protobuf generation failed" >&2; return 1; }
  instr_overlay "$BUILD" "$mode" || { echo "INTERNAL-ERROR: instrumentation failed" >&2; return 1; }
  local modflag=
  if [ "$REPO" != /repo ]; then
    # scratch evaluation against a copy of the repository: same module, other replace target
    sed "s#=> /repo\$#=> $REPO#" "$VERIF/mc/go.mod" > "$BUILD/go.mod"; cp "$VERIF/mc/go.sum" "$BUILD/go.sum"
    modflag="-modfile=$BUILD/go.mod"
  fi
  ( cd "$VERIF/mc" && go build $modflag -overlay "$BUILD/overlay-$mode.json" -o "$BUILD/bin/mcheck-$mode" ./cmd/mcheck ) || {
    echo "INTERNAL-ERROR: build failed" >&2; return 1; }
}
