package c04

import (
	"context"
	"crypto/md5"
	"encoding/binary"
	"encoding/json"
	"fmt"
	"net/http"
	"strings"

	"github.com/aws/aws-sdk-go-v2/aws"
	awskinesis "github.com/aws/aws-sdk-go-v2/service/kinesis"
	kinesistypes "github.com/aws/aws-sdk-go-v2/service/kinesis/types"
	gproto "google.golang.org/protobuf/proto"
	protocol "reduction.dev/reduction-protocol/kinesispb"
	"reduction.dev/reduction/connectors"
	"reduction.dev/reduction/connectors/embedded"
	"reduction.dev/reduction/connectors/kinesis"
	"reduction.dev/reduction/connectors/kinesis/kinesisfake"
	"reduction.dev/reduction/connectors/kinesis/kinesispb"
	"reduction.dev/reduction/proto/workerpb"
	"verif.local/mc/mc"
)

// Kinesis reader part: the real kinesis.SourceReader of one runner that owns both shards of a
// two-shard stream, against the repository's fake. Histories over {put a record into shard 0 /
// shard 1, ReadEvents, checkpoint + a new reader assigned the shards with the checkpointed
// cursors (a shard without a checkpointed position starts from the beginning, as the splitter
// hands it out)}. Every record a reader emits must be the next record of its shard after the
// position its lineage has reached: nothing skipped, nothing emitted again after a restore
// from a checkpoint that already covered it.

// partition keys that the fake maps to shard 0 and shard 1
var shardKeys = func() [2]string {
	var out [2]string
	for i := 0; out[0] == "" || out[1] == ""; i++ {
		k := fmt.Sprintf("p%d", i)
		h := md5.Sum([]byte(k))
		out[h[0]>>7] = k
	}
	return out
}()

func kinesisReaderBody(c *mc.Ctx) {
	depth := c.Param.(int)
	fake, handler := kinesisfake.VerifNewHandler()
	// GetRecords limit and a shard that already holds a dozen records (sequence numbers with one
	// and with two digits: positions are decimal strings of growing length)
	start := c.Choose(4)
	prefill := 0
	switch start {
	case 1:
		fake.SetGetRecordsLimit(1)
		c.Op("[GetRecords returns one record at a time]")
	case 2:
		fake.SetGetRecordsLimit(8)
		prefill = 12
		c.Op("[GetRecords returns eight records at a time; shard 0 already holds 12 records]")
	case 3:
		fake.SetGetRecordsLimit(4)
		prefill = 12
		c.Op("[GetRecords returns four records at a time; shard 0 already holds 12 records]")
	}
	client := awskinesis.New(awskinesis.Options{EndpointResolver: awskinesis.EndpointResolverFromURL("http://kinesis.invalid"), Region: "us-east-2",
		Credentials: aws.AnonymousCredentials{}, Retryer: aws.NopRetryer{}, HTTPClient: &http.Client{Transport: handlerTransport{handler}}})
	ctx := context.Background()
	name := "s"
	if _, err := client.CreateStream(ctx, &awskinesis.CreateStreamInput{StreamName: &name, ShardCount: aws.Int32(2)}); err != nil {
		panic(fmt.Sprintf("mc: harness: create stream: %v", err))
	}
	shardIDs := []string{"shardId-000000000000", "shardId-000000000001"}
	newReader := func(cursors map[string]string) *kinesis.SourceReader {
		r := kinesis.NewSourceReader(kinesis.SourceConfig{StreamARN: streamARN, Client: client}, connectors.SourceReaderHooks{NotifySplitsFinished: func([]string) {}})
		var splits []*workerpb.SourceSplit
		for _, id := range shardIDs {
			splits = append(splits, &workerpb.SourceSplit{SplitId: id, Cursor: []byte(cursors[id])})
		}
		if err := r.AssignSplits(splits); err != nil {
			c.Failf("AssignSplits: %v", err)
		}
		return r
	}
	reader := newReader(nil)
	put := [2]int{} // records put per shard
	for ; put[0] < prefill; put[0]++ {
		if _, err := client.PutRecords(ctx, &awskinesis.PutRecordsInput{StreamARN: aws.String(streamARN),
			Records: []kinesistypes.PutRecordsRequestEntry{{Data: []byte(fmt.Sprintf("0#%d", put[0])), PartitionKey: aws.String(shardKeys[0])}}}); err != nil {
			panic(fmt.Sprintf("mc: harness: put: %v", err))
		}
	}
	pos := [2]int{} // records of the shard emitted in the current lineage
	restores, afterRestoreReads := 0, 0
	for step := 0; step < depth; step++ {
		op := c.Choose(5)
		switch op {
		case 0:
			step = depth
		case 1, 2:
			s := op - 1
			data := fmt.Sprintf("%d#%d", s, put[s])
			put[s]++
			c.Op("Put(shard %d: %s)", s, data)
			if _, err := client.PutRecords(ctx, &awskinesis.PutRecordsInput{StreamARN: aws.String(streamARN),
				Records: []kinesistypes.PutRecordsRequestEntry{{Data: []byte(data), PartitionKey: aws.String(shardKeys[s])}}}); err != nil {
				panic(fmt.Sprintf("mc: harness: put: %v", err))
			}
		case 3:
			evs, err := reader.ReadEvents()
			if err != nil {
				c.Failf("ReadEvents: %v", err)
			}
			var got []string
			for _, b := range evs {
				var rec protocol.Record
				if err := gproto.Unmarshal(b, &rec); err != nil {
					c.Failf("decode record: %v", err)
				}
				got = append(got, string(rec.Data))
			}
			c.Op("ReadEvents -> %v", got)
			if restores > 0 {
				afterRestoreReads++
			}
			for _, d := range got {
				var s, n int
				fmt.Sscanf(d, "%d#%d", &s, &n)
				switch {
				case n < pos[s]:
					c.FailSig("kinesis-reader-duplicate", "record %s of shard %d is emitted again: the reader's lineage (checkpoint and reads since) had already reached record %d", d, s, pos[s])
				case n > pos[s]:
					c.FailSig("kinesis-reader-skips", "record %s of shard %d is emitted, but record %d of that shard has not been emitted yet", d, s, pos[s])
				}
				pos[s]++
			}
		case 4:
			cp := reader.Checkpoint()
			cursors := map[string]string{}
			var desc []string
			for _, b := range cp {
				var sh kinesispb.Shard
				if err := gproto.Unmarshal(b, &sh); err != nil {
					c.Failf("decode reader checkpoint: %v", err)
				}
				cursors[sh.ShardId] = sh.Cursor
				desc = append(desc, fmt.Sprintf("%s=%q", strings.TrimLeft(strings.TrimPrefix(sh.ShardId, "shardId-"), "0")+"", sh.Cursor))
			}
			c.Op("Checkpoint %v; a new reader resumes from it", desc)
			// the checkpoint covers exactly what has been emitted: pos stays
			reader = newReader(cursors)
			restores++
		}
	}
	// drain: everything put must come out, once
	for i := 0; i < 2*(put[0]+put[1])+6 && (pos[0] < put[0] || pos[1] < put[1]); i++ {
		evs, err := reader.ReadEvents()
		if err != nil {
			c.Failf("ReadEvents: %v", err)
		}
		for _, b := range evs {
			var rec protocol.Record
			gproto.Unmarshal(b, &rec)
			var s, n int
			fmt.Sscanf(string(rec.Data), "%d#%d", &s, &n)
			if n != pos[s] {
				c.FailSig("kinesis-reader-duplicate", "draining: record %s of shard %d is emitted, the lineage is at record %d", rec.Data, s, pos[s])
			}
			pos[s]++
		}
	}
	if pos != put {
		c.FailSig("kinesis-reader-lost", "records put per shard %v, records emitted in the final lineage %v", put, pos)
	}
	if restores > 0 && afterRestoreReads > 0 {
		c.Nontrivial(strings.Join(c.Ops(), " "))
	}
}

// Embedded reader part: the real embedded.SourceReader with S splits dealt out by the real
// embedded splitter to R runners: runner r's reader, read k times with batch size b, must emit
// for each of its splits j exactly j, j+S, j+2S, ... in order (the union over runners covers
// every number once), and its checkpoint must name exactly its splits with the number of
// values emitted so far times S as cursor.
func embeddedReaderBody(c *mc.Ctx) {
	splits := 1 + c.Choose(4)
	runners := 1 + c.Choose(3)
	batch := 1 + c.Choose(3)
	reads := 1 + c.Choose(3)
	c.Op("[splits=%d runners=%d batch=%d reads=%d]", splits, runners, batch, reads)
	ids := make([]string, runners)
	for i := range ids {
		ids[i] = fmt.Sprintf("sr%d", i)
	}
	var assigned map[string][]*workerpb.SourceSplit
	sp := embedded.NewSourceSplitter(embedded.SourceConfig{SplitCount: splits, BatchSize: batch}, ids, connectors.SourceSplitterHooks{AssignSplits: func(a map[string][]*workerpb.SourceSplit) { assigned = a }})
	if err := sp.Start(nil); err != nil {
		c.Failf("embedded splitter: %v", err)
	}
	seen := map[int]int{}
	for _, id := range ids {
		r := embedded.NewSourceReader(embedded.SourceConfig{SplitCount: splits, BatchSize: batch})
		if err := r.AssignSplits(assigned[id]); err != nil {
			c.Failf("AssignSplits: %v", err)
		}
		next := map[int]int{} // split index -> next expected number
		for _, s := range assigned[id] {
			var j int
			fmt.Sscan(s.SplitId, &j)
			next[j] = j
		}
		for k := 0; k < reads; k++ {
			evs, err := r.ReadEvents()
			if err != nil {
				c.Failf("ReadEvents: %v", err)
			}
			if len(evs) != batch*len(assigned[id]) {
				c.FailSig("embedded-reader-count", "runner %s with %d splits and batch size %d emits %d values in one read", id, len(assigned[id]), batch, len(evs))
			}
			for _, b := range evs {
				var n int
				fmt.Sscan(string(b), &n)
				j := n % splits
				if want, ok := next[j]; !ok || want != n {
					c.FailSig("embedded-reader-sequence", "runner %s emits %d; split %d of its splits %v is at %d", id, n, j, next, want)
				}
				next[j] = n + splits
				seen[n]++
			}
		}
		var resumed []*workerpb.SourceSplit
		for _, b := range r.Checkpoint() {
			var st struct {
				Cursor  int
				SplitID string
			}
			if err := json.Unmarshal(b, &st); err != nil {
				c.Failf("decode embedded reader checkpoint: %v", err)
			}
			var j int
			fmt.Sscan(st.SplitID, &j)
			if want, ok := next[j]; !ok || j+st.Cursor != want {
				c.FailSig("embedded-reader-cursor", "runner %s checkpoints split %s at cursor %d, its next value is %d", id, st.SplitID, st.Cursor, want)
			}
			cur := make([]byte, 8)
			binary.BigEndian.PutUint64(cur, uint64(st.Cursor))
			resumed = append(resumed, &workerpb.SourceSplit{SplitId: st.SplitID, Cursor: cur})
		}
		// a new reader that is assigned the splits with the checkpointed cursors goes on where the
		// checkpoint was taken
		r2 := embedded.NewSourceReader(embedded.SourceConfig{SplitCount: splits, BatchSize: batch})
		if err := r2.AssignSplits(resumed); err != nil {
			c.Failf("AssignSplits with cursors: %v", err)
		}
		evs, err := r2.ReadEvents()
		if err != nil {
			c.Failf("ReadEvents after restore: %v", err)
		}
		for _, b := range evs {
			var n int
			fmt.Sscan(string(b), &n)
			j := n % splits
			if want, ok := next[j]; !ok || want != n {
				c.FailSig("embedded-reader-resume", "runner %s, restored from its checkpoint, emits %d; split %d was at %d when the checkpoint was taken", id, n, j, want)
			}
			next[j] = n + splits
		}
	}
	for n := 0; n < splits*batch*reads; n++ {
		if seen[n] != 1 {
			c.FailSig("embedded-reader-coverage", "value %d was emitted %d times by the %d runners", n, seen[n], runners)
		}
	}
	c.Nontrivial(fmt.Sprint(splits, runners, batch, reads))
}
