// Package dkvh: shared helpers for harnesses that drive a real dkv.DB: an instrumented,
// gateable file system, tiny option sets, a reference map and result comparison.
package dkvh

import (
	"fmt"
	"regexp"
	"sort"
	"strconv"
	"strings"
	"sync"

	"reduction.dev/reduction/dkv"
	"reduction.dev/reduction/dkv/kv"
	"reduction.dev/reduction/dkv/storage"
	"verif.local/mc/mc"
	"verif.local/mc/shim"
)

// FS wraps a MemoryFilesystem: keeps a shadow copy of every saved file, logs every mutating
// storage operation together with a snapshot of the file set after it, and can hold back
// background work by blocking the creation of table files (the first storage step of a flush
// or compaction).
type FS struct {
	mem *storage.MemoryFilesystem
	sh  *fsShared
}

type fsShared struct {
	mu      sync.Mutex
	cond    *sync.Cond
	hold    bool
	holdOne int // 1: the next table file to be created is held back (only that one); 2: it is being held
	holdNth int // > 0: the n-th table file to be created is held back (only that one)
	created int // table files created so far
	waiting int
	files   map[string][]byte // uri -> content of saved files
	Log     []FSEvent
	Record  bool // take a snapshot after every mutation
}

// FSEvent is one mutating storage operation and the file set right after it.
type FSEvent struct {
	Op    string
	Files map[string][]byte // nil unless recording
}

func NewFS() *FS {
	f := &FS{mem: storage.NewMemoryFilesystem(), sh: &fsShared{files: map[string][]byte{}}}
	f.sh.cond = sync.NewCond(&f.sh.mu)
	return f
}

// WithWorkingDir returns a view with another working directory over the same files.
func (f *FS) WithWorkingDir(dir string) *FS {
	return &FS{mem: f.mem.WithWorkingDir(dir), sh: f.sh}
}

// Hold closes (true) or opens (false) the gate for new table files.
func (f *FS) Hold(h bool) {
	f.sh.mu.Lock()
	f.sh.hold = h
	if !h {
		f.sh.holdOne = 0
	}
	f.sh.mu.Unlock()
	f.sh.cond.Broadcast()
}

// HoldNext holds back the next table file to be created, and only that one: the task that
// creates it (a flush or a compaction step) stays in the middle of its work while later
// tasks of the other queue run. Hold(false) releases it.
func (f *FS) HoldNext() {
	f.sh.mu.Lock()
	f.sh.holdOne = 1
	f.sh.mu.Unlock()
}

// HoldNth holds back the n-th table file to be created (counting from 1), and only that one.
func (f *FS) HoldNth(n int) {
	f.sh.mu.Lock()
	f.sh.holdNth = n
	f.sh.mu.Unlock()
}

// Blocked reports how many creators of table files are being held back right now.
func (f *FS) Blocked() int {
	f.sh.mu.Lock()
	defer f.sh.mu.Unlock()
	return f.sh.waiting
}

// Record switches snapshot recording on or off.
func (f *FS) Record(on bool) { f.sh.mu.Lock(); f.sh.Record = on; f.sh.mu.Unlock() }

// TakeLog returns and clears the event log.
func (f *FS) TakeLog() []FSEvent {
	f.sh.mu.Lock()
	defer f.sh.mu.Unlock()
	l := f.sh.Log
	f.sh.Log = nil
	return l
}

// PeekLog returns a copy of the event log without clearing it.
func (f *FS) PeekLog() []FSEvent {
	f.sh.mu.Lock()
	defer f.sh.mu.Unlock()
	return append([]FSEvent(nil), f.sh.Log...)
}

// Snapshot returns the current file set.
func (f *FS) Snapshot() map[string][]byte {
	f.sh.mu.Lock()
	defer f.sh.mu.Unlock()
	return f.sh.snap()
}

// Exists reports whether a saved file with this URI exists.
func (f *FS) Exists(uri string) bool {
	f.sh.mu.Lock()
	defer f.sh.mu.Unlock()
	_, ok := f.sh.files[uri]
	return ok
}

func (s *fsShared) snap() map[string][]byte {
	m := make(map[string][]byte, len(s.files))
	for k, v := range s.files {
		m[k] = v
	}
	return m
}

func (s *fsShared) event(op string) {
	ev := FSEvent{Op: op}
	if s.Record {
		ev.Files = s.snap()
	}
	s.Log = append(s.Log, ev)
}

func (f *FS) New(path string) storage.File {
	if strings.HasSuffix(path, ".sst") {
		f.sh.mu.Lock()
		mine := false
		f.sh.created++
		if f.sh.holdOne == 1 || (f.sh.holdNth > 0 && f.sh.created == f.sh.holdNth) {
			f.sh.holdOne, mine = 2, true
		}
		f.sh.waiting++
		for f.sh.hold || (mine && f.sh.holdOne == 2) {
			f.sh.cond.Wait()
		}
		f.sh.waiting--
		f.sh.mu.Unlock()
	}
	return &recFile{File: f.mem.New(path), sh: f.sh}
}

func (f *FS) Open(path string) storage.File { return &recFile{File: f.mem.Open(path), sh: f.sh} }

func (f *FS) Copy(src, dst string) error {
	if err := f.mem.Copy(src, dst); err != nil {
		return err
	}
	su, du := f.mem.Open(src).URI(), f.mem.Open(dst).URI()
	f.sh.mu.Lock()
	f.sh.files[du] = f.sh.files[su]
	f.sh.event("copy " + su + " -> " + du)
	f.sh.mu.Unlock()
	return nil
}

var _ storage.FileSystem = (*FS)(nil)

type recFile struct {
	storage.File
	sh  *fsShared
	buf []byte
}

func (r *recFile) Write(p []byte) (int, error) {
	r.buf = append(r.buf, p...)
	return r.File.Write(p)
}

func (r *recFile) Save() error {
	if err := r.File.Save(); err != nil {
		return err
	}
	r.sh.mu.Lock()
	r.sh.files[r.File.URI()] = r.buf
	r.sh.event("save " + r.File.URI())
	r.sh.mu.Unlock()
	return nil
}

func (r *recFile) Delete() error {
	err := r.File.Delete()
	r.sh.mu.Lock()
	delete(r.sh.files, r.File.URI())
	r.sh.event("delete " + r.File.URI())
	r.sh.mu.Unlock()
	return err
}

func (r *recFile) CreateDeleteFunc() func() error {
	inner := r.File.CreateDeleteFunc()
	uri, sh := r.File.URI(), r.sh
	return func() error {
		err := inner()
		sh.mu.Lock()
		delete(sh.files, uri)
		sh.event("cleanup-delete " + uri)
		sh.mu.Unlock()
		return err
	}
}

// MemFSFrom builds a plain MemoryFilesystem holding exactly the given files.
func MemFSFrom(files map[string][]byte) *storage.MemoryFilesystem {
	m := storage.NewMemoryFilesystem()
	for uri, data := range files {
		f := m.New(uri)
		f.Write(data)
		f.Save()
	}
	return m
}

// Options is one tiny configuration of the database.
type Options struct {
	Mem, Table uint64
	L0         int
	Smallest   uint64
	Ampl       uint64
}

func (o Options) String() string {
	return fmt.Sprintf("mem=%d,table=%d,l0=%d,lvl=%d,ampl=%d", o.Mem, o.Table, o.L0, o.Smallest, o.Ampl)
}

// Configs: memtable of about 2 or 3 entries, tables of about 2 or 4 entries, L0 trigger 1 or
// 2, level size limit of about 1 or 2 tables (a table carries a 4 KB bloom block).
func Configs(thorough bool) []Options {
	var out []Options
	for _, mem := range []uint64{30, 50} {
		for _, tbl := range []uint64{40, 80} {
			for _, l0 := range []int{1, 2} {
				out = append(out, Options{Mem: mem, Table: tbl, L0: l0, Smallest: 4500, Ampl: 50})
			}
		}
	}
	// the last one: the first compaction is a major one (empty base level), later ones are minor
	// merges of level 0 into level 1 above a non-empty base level
	out = append(out, Options{Mem: 30, Table: 40, L0: 3, Smallest: 4500, Ampl: 50}, Options{Mem: 30, Table: 80, L0: 4, Smallest: 9000, Ampl: 200},
		Options{Mem: 30, Table: 80, L0: 1, Smallest: 9000, Ampl: 200})
	if thorough {
		out = append(out, Options{Mem: 30, Table: 40, L0: 2, Smallest: 9000, Ampl: 200},
			Options{Mem: 50, Table: 40, L0: 3, Smallest: 100, Ampl: 0},
			Options{Mem: 30, Table: 1, L0: 1, Smallest: 4500, Ampl: 50})
	}
	return out
}

// Tune installs the compactor tuning of o for databases created on this goroutine.
func Tune(o Options) {
	shim.SetLocal(&shim.Local{Tune: map[string]uint64{"SmallestLevelSize": o.Smallest, "MaxSizeAmplificationPercent": o.Ampl}})
}

// DBOptions returns the dkv options for o over fs.
func (o Options) DBOptions(fs storage.FileSystem) dkv.DBOptions {
	return dkv.DBOptions{FileSystem: fs, MemTableSize: o.Mem, TargetFileSize: o.Table, MaxWALSize: 1 << 20, L0TableNumCompactionTrigger: o.L0}
}

var memNum = regexp.MustCompile(`MemTables \(num: (\d+)\)`)

// SealedMemtables reports how many sealed memtables await their flush.
func SealedMemtables(db *dkv.DB) int {
	m := memNum.FindStringSubmatch(db.Diagnostics())
	if m == nil {
		return 0
	}
	n, _ := strconv.Atoi(m[1])
	return n - 1
}

// Ref is the reference model: a plain map.
type Ref map[string]string

func (r Ref) Clone() Ref {
	o := Ref{}
	for k, v := range r {
		o[k] = v
	}
	return o
}

func (r Ref) Scan(prefix string) []string {
	var ks []string
	for k := range r {
		if strings.HasPrefix(k, prefix) {
			ks = append(ks, k)
		}
	}
	sort.Strings(ks) // byte order of the raw keys
	out := make([]string, len(ks))
	for i, k := range ks {
		out[i] = fmt.Sprintf("%q=%s", k, r[k])
	}
	return out
}

func (r Ref) String() string { return fmt.Sprint(r.Scan("")) }

// CheckReads compares Get of every key and ScanPrefix of every prefix with the reference.
func CheckReads(c *mc.Ctx, what string, db *dkv.DB, ref Ref, keys, prefixes []string) {
	for _, k := range keys {
		e, err := db.Get([]byte(k))
		want, has := ref[k]
		switch {
		case err != nil && err != kv.ErrNotFound:
			c.FailSig("get-error:"+what, "%s: Get(%q) error: %v", what, k, err)
		case err == kv.ErrNotFound || e.IsDelete():
			if has {
				c.FailSig("get-lost:"+what, "%s: Get(%q) reports absent/deleted, latest write is %s", what, k, want)
			}
		default:
			if !has {
				c.FailSig("get-resurrected:"+what, "%s: Get(%q) = %s, but the key was deleted / never written", what, k, e.Value())
			} else if string(e.Value()) != want {
				c.FailSig("get-stale:"+what, "%s: Get(%q) = %s, latest write is %s", what, k, e.Value(), want)
			}
		}
	}
	for _, p := range prefixes {
		var got []string
		var err error
		for e := range db.ScanPrefix([]byte(p), &err) {
			got = append(got, fmt.Sprintf("%q=%s", e.Key(), e.Value()))
		}
		if err != nil {
			c.FailSig("scan-error:"+what, "%s: ScanPrefix(%q) error: %v", what, p, err)
		}
		want := ref.Scan(p)
		if fmt.Sprint(got) != fmt.Sprint(want) {
			c.FailSig("scan-mismatch:"+what, "%s: ScanPrefix(%q) = %v, want %v", what, p, got, want)
		}
	}
}

var levelLine = regexp.MustCompile(`level (\d+), tables (\d+)`)

// Layout returns the number of sealed memtables and the table count per level.
func Layout(db *dkv.DB) (sealed int, levels []int) {
	d := db.Diagnostics()
	sealed = 0
	if m := memNum.FindStringSubmatch(d); m != nil {
		n, _ := strconv.Atoi(m[1])
		sealed = n - 1
	}
	for _, m := range levelLine.FindAllStringSubmatch(d, -1) {
		n, _ := strconv.Atoi(m[2])
		levels = append(levels, n)
	}
	return
}

// NoteLayout bumps anti-vacuity counters describing the layout reads were served from.
func NoteLayout(c *mc.Ctx, db *dkv.DB) string {
	sealed, levels := Layout(db)
	if sealed > 0 {
		c.Note("reads_with_sealed_memtable")
	}
	if len(levels) > 0 && levels[0] >= 2 {
		c.Note("reads_with_2plus_L0_tables")
	}
	deep := 0
	for i, n := range levels {
		if i >= 1 && n > 0 {
			c.Note("reads_with_tables_below_L0")
			deep++
		}
		if i >= 1 && n >= 2 {
			c.Note("reads_with_multi_table_sorted_level")
		}
		if i >= 2 && n > 0 {
			c.Note("reads_with_tables_in_L2_or_deeper")
		}
	}
	return fmt.Sprint(sealed, levels)
}

// PanicText classifies a recovered value: a panic of the code under test (error or string
// not raised by the machinery) yields its text; anything else must be re-panicked.
func PanicText(r any) (string, bool) {
	switch v := r.(type) {
	case error:
		return v.Error(), true
	case string:
		if strings.HasPrefix(v, "mc: ") {
			return "", false
		}
		return v, true
	}
	return "", false
}

// ReadURI returns the content of a saved file by its URI.
func (f *FS) ReadURI(uri string) ([]byte, bool) {
	f.sh.mu.Lock()
	defer f.sh.mu.Unlock()
	b, ok := f.sh.files[uri]
	return b, ok
}

// WriteURI creates (or replaces) a file under the given URI.
func (f *FS) WriteURI(uri string, data []byte) {
	file := f.New(uri)
	file.Write(data)
	file.Save()
}

// DeleteAll removes every file (the working storage is wiped).
func (f *FS) DeleteAll() {
	for uri := range f.Snapshot() {
		f.Open(uri).Delete()
	}
}
