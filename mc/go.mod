module verif.local/mc

go 1.24

toolchain go1.24.0

require (
	google.golang.org/protobuf v1.36.3
	reduction.dev/reduction v0.0.0
	reduction.dev/reduction-protocol v0.0.5-0.20250502133230-e5852cf15cdc
)

require github.com/google/btree v1.1.3 // indirect

replace reduction.dev/reduction => /repo
