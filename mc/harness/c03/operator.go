package c03

import (
	"context"
	"fmt"
	"sort"
	"strings"
	"time"

	"google.golang.org/protobuf/types/known/timestamppb"
	"reduction.dev/reduction-protocol/handlerpb"
	"reduction.dev/reduction/batching"
	"reduction.dev/reduction/clocks"
	"reduction.dev/reduction/connectors/embedded"
	"reduction.dev/reduction/dkv"
	"reduction.dev/reduction/dkv/storage"
	"reduction.dev/reduction/proto/jobpb"
	"reduction.dev/reduction/proto/snapshotpb"
	"reduction.dev/reduction/proto/workerpb"
	"reduction.dev/reduction/workers/operator"
	"verif.local/mc/harness/dkvh"
	"verif.local/mc/harness/oph"
	"verif.local/mc/harness/schedh"
	"verif.local/mc/mc"
	"verif.local/mc/shim"
)

// Operator tier (scheduler build, default schedule): a real Operator - event batching, the
// per-batch state lookup, ApplyMutations, checkpoint at a barrier, a new operator deployed from
// that checkpoint - is fed an enumerated script of keyed events. The value of an event is the
// mutation the handler returns for it (put or delete of one entry of the event's key, in one
// of two namespaces). On every ProcessEventBatch call the handler compares the state supplied
// for each key with what its own previous mutations leave (a shadow map).

type mutHandler struct {
	shadow   map[string]map[string]map[string]string // key -> namespace -> entry -> value
	failures []string
	batches  int
	multi    int // batches with two or more events of one key
	restored bool
	afterRes int  // handler invocations after a restore that were supplied non-empty state
	perEvent bool // one KeyResult per event (as the repository's own handlers answer) instead of one per key
}

func (h *mutHandler) KeyEventBatch(ctx context.Context, events [][]byte) ([][]*handlerpb.KeyedEvent, error) {
	panic("mc: harness handler: KeyEventBatch is not used by operators")
}

func renderShadow(m map[string]map[string]string) string {
	var nss []string
	for ns, es := range m {
		if len(es) == 0 {
			continue
		}
		var ents []string
		for k, v := range es {
			ents = append(ents, fmt.Sprintf("%q=%q", k, v))
		}
		sort.Strings(ents)
		nss = append(nss, fmt.Sprintf("%q{%s}", ns, strings.Join(ents, ",")))
	}
	sort.Strings(nss)
	return strings.Join(nss, " ")
}

func (h *mutHandler) ProcessEventBatch(ctx context.Context, req *handlerpb.ProcessEventBatchRequest) (*handlerpb.ProcessEventBatchResponse, error) {
	h.batches++
	seen := map[string]bool{}
	for _, ks := range req.KeyStates {
		k := string(ks.Key)
		if seen[k] {
			h.failures = append(h.failures, fmt.Sprintf("key %q appears twice in the KeyStates of one batch", k))
		}
		seen[k] = true
		got := map[string]map[string]string{}
		dup := false
		for _, ns := range ks.StateEntryNamespaces {
			if got[ns.Namespace] != nil {
				dup = true
			}
			if got[ns.Namespace] == nil {
				got[ns.Namespace] = map[string]string{}
			}
			for _, e := range ns.Entries {
				if _, ok := got[ns.Namespace][string(e.Key)]; ok {
					dup = true
				}
				got[ns.Namespace][string(e.Key)] = string(e.Value)
			}
		}
		if dup {
			h.failures = append(h.failures, fmt.Sprintf("key %q: a namespace or an entry is supplied twice", k))
		}
		if g, w := renderShadow(got), renderShadow(h.shadow[k]); g != w {
			h.failures = append(h.failures, fmt.Sprintf("batch %d: key %q is supplied state [%s], the handler's earlier mutations leave [%s]", h.batches, k, g, w))
		}
		if h.restored && len(got) > 0 {
			h.afterRes++
		}
	}
	results := map[string]*handlerpb.KeyResult{}
	var order []string
	perKey := map[string]int{}
	var perEvent []*handlerpb.KeyResult // the key results in the order of their first (or only) event
	for _, ev := range req.Events {
		ke, ok := ev.Event.(*handlerpb.Event_KeyedEvent)
		if !ok {
			continue
		}
		k, spec := string(ke.KeyedEvent.Key), string(ke.KeyedEvent.Value)
		if !seen[k] {
			h.failures = append(h.failures, fmt.Sprintf("an event of key %q arrived without the key's state", k))
		}
		perKey[k]++
		if perKey[k] == 2 {
			h.multi++
		}
		r := results[k]
		if r == nil || h.perEvent {
			r = &handlerpb.KeyResult{Key: []byte(k)}
			results[k] = r
			order = append(order, k)
			perEvent = append(perEvent, r)
		}
		// spec: P|ns|entry|value or D|ns|entry
		f := strings.Split(spec, "|")
		ns, entry := f[1], f[2]
		mut := &handlerpb.StateMutation{}
		if h.shadow[k] == nil {
			h.shadow[k] = map[string]map[string]string{}
		}
		if h.shadow[k][ns] == nil {
			h.shadow[k][ns] = map[string]string{}
		}
		if f[0] == "P" {
			mut.Mutation = &handlerpb.StateMutation_Put{Put: &handlerpb.PutMutation{Key: []byte(entry), Value: []byte(f[3])}}
			h.shadow[k][ns][entry] = f[3]
		} else {
			mut.Mutation = &handlerpb.StateMutation_Delete{Delete: &handlerpb.DeleteMutation{Key: []byte(entry)}}
			delete(h.shadow[k][ns], entry)
		}
		var nsm *handlerpb.StateMutationNamespace
		for _, m := range r.StateMutationNamespaces {
			if m.Namespace == ns {
				nsm = m
			}
		}
		if nsm == nil {
			nsm = &handlerpb.StateMutationNamespace{Namespace: ns}
			r.StateMutationNamespaces = append(r.StateMutationNamespaces, nsm)
		}
		nsm.Mutations = append(nsm.Mutations, mut)
	}
	resp := &handlerpb.ProcessEventBatchResponse{}
	_ = order
	resp.KeyResults = perEvent
	return resp, nil
}

type oparams struct {
	depth    int
	thorough bool
}

var opSubjects = []string{"a", "ab"}
var execSeq int

func operatorBody(c *mc.Ctx) {
	p := c.Param.(oparams)
	batch, mem := []int{1, 3}[c.Choose(2)], uint64(90)
	if p.thorough {
		batch = 1 + c.Choose(3)
		mem = []uint64{0, 90}[c.Choose(2)]
	}
	if mem > 0 {
		shim.SetGlobalTune("MemTableSize", mem)
		shim.SetGlobalTune("L0Trigger", 2)
		defer shim.ClearGlobalTune()
	}
	perEvent := batch > 1 && c.Choose(2) == 1
	c.Op("[event batch size %d, memtable %d bytes, key results per %s]", batch, mem, map[bool]string{true: "event", false: "key"}[perEvent])
	execSeq++
	base := fmt.Sprintf("/x%d", execSeq)
	root := dkvh.NewFS()
	storage.VerifRegisterFS("memory://"+base, func(loc string) storage.FileSystem {
		return root.WithWorkingDir(strings.TrimPrefix(loc, "memory://"))
	})
	defer storage.VerifRegisterFS("memory://"+base, nil)

	dkv.VerifResetQueues() // abandoned executions must not leave the process-wide task queues occupied
	h := &mutHandler{shadow: map[string]map[string]map[string]string{}, perEvent: perEvent}
	var errs []string
	rewrites := 0
	touched := map[string]int{}
	schedh.Run(c, schedh.Opts{MaxSteps: 200000, NoAdvanceAlt: true, MaxAdvances: 400, FixedSchedule: true}, func() {
		gen := 0
		var ckpts []*snapshotpb.OperatorCheckpoint
		var op *operator.Operator
		var cancel context.CancelFunc
		var ctx context.Context
		var stopped chan struct{}
		var job *oph.Job
		start := func() {
			gen++
			id := fmt.Sprintf("op%d", gen)
			job = oph.NewJob(oph.NewHandler())
			ctx, cancel = context.WithCancel(context.Background())
			op = operator.NewOperator(operator.NewOperatorParams{ID: id, UserHandler: h, Job: job, Clock: clocks.NewFrozenClock(),
				EventBatching: batching.EventBatcherParams{MaxSize: batch, MaxDelay: 10 * time.Millisecond}})
			stopped = make(chan struct{})
			st := stopped
			o := op
			cx := ctx
			shim.Go(func() { o.Start(cx); shim.Close(st) })
			shim.Recv(job.Registered)
			if err := op.HandleDeploy(ctx, &workerpb.DeployOperatorRequest{Operators: []*jobpb.NodeIdentity{{Id: id}}, SourceRunnerIds: []string{"sr0"},
				KeyGroupCount: 4, StorageLocation: "memory://" + base, Checkpoints: ckpts}, &embedded.RecordingSink{}); err != nil {
				panic(fmt.Sprintf("mc: harness: deploy: %v", err))
			}
		}
		stop := func() {
			cancel()
			shim.Recv(stopped)
		}
		send := func(ev *workerpb.Event, what string) {
			if err := op.HandleEvent(ctx, "sr0", ev); err != nil {
				errs = append(errs, fmt.Sprintf("%s rejected: %v", what, err))
			}
		}
		nextCkpt := uint64(1)
		checkpoint := func() *snapshotpb.OperatorCheckpoint {
			id := nextCkpt
			nextCkpt++
			before := len(job.Completions)
			send(oph.Barrier(id), fmt.Sprintf("barrier(%d)", id))
			for i := 0; i < 200 && len(job.Completions) == before; i++ {
				shim.Sleep(5 * time.Millisecond)
			}
			if len(job.Completions) == before {
				errs = append(errs, fmt.Sprintf("checkpoint %d was never reported", id))
				return nil
			}
			return job.Completions[len(job.Completions)-1].Req
		}
		start()
		nMut := len(opSubjects) * 4
		for step := 0; step < p.depth && len(errs) == 0 && len(h.failures) == 0; step++ {
			ev := c.Choose(3 + nMut)
			switch {
			case ev == 0:
				step = p.depth
			case ev == 1:
				c.Op("batch time-out passes")
				shim.Sleep(15 * time.Millisecond)
			case ev == 2:
				ck := checkpoint()
				if ck == nil {
					return
				}
				c.Op("Checkpoint(%d); a new operator is deployed from it", ck.CheckpointId)
				stop()
				ckpts = []*snapshotpb.OperatorCheckpoint{ck}
				h.restored = true
				start()
			default:
				i := ev - 3
				sub := opSubjects[i/4]
				var spec string
				switch i % 4 {
				case 0:
					spec = fmt.Sprintf("P|n|m|v%d", step) // n/m and nm/"" concatenate to the same bytes
				case 1:
					spec = "D|n|m"
				case 2:
					spec = fmt.Sprintf("P|nm||%s", []string{"", "w"}[step%2]) // empty entry key, sometimes an empty value
				case 3:
					spec = "D|nm|"
				}
				c.Op("event(%q: %s)", sub, spec)
				f := strings.Split(spec, "|")
				id := sub + "|" + f[1] + "|" + f[2]
				touched[id]++
				if touched[id] > 1 {
					rewrites++
				}
				send(&workerpb.Event{Event: &workerpb.Event_KeyedEvent{KeyedEvent: &handlerpb.KeyedEvent{Key: []byte(sub), Value: []byte(spec), Timestamp: timestamppb.New(time.Unix(1, 0))}}}, "event")
			}
		}
		if len(errs) > 0 || len(h.failures) > 0 {
			stop()
			return
		}
		// everything the handler returned must be in the next checkpoint: restore once more and
		// let every subject receive one more event, whose supplied state is judged like the others
		ck := checkpoint()
		if ck != nil {
			c.Op("Checkpoint(%d); a new operator is deployed from it; three more events (key a, key ab, key a again)", ck.CheckpointId)
			stop()
			ckpts = []*snapshotpb.OperatorCheckpoint{ck}
			h.restored = true
			start()
			// first key, second key, first key again: with a batch size of 3 one batch holds a key
			// twice around another key
			for i, sub := range []string{opSubjects[0], opSubjects[1], opSubjects[0]} {
				send(&workerpb.Event{Event: &workerpb.Event_KeyedEvent{KeyedEvent: &handlerpb.KeyedEvent{Key: []byte(sub), Value: []byte(fmt.Sprintf("P|z|last%d|1", i)), Timestamp: timestamppb.New(time.Unix(1, 0))}}}, "event")
			}
			shim.Sleep(15 * time.Millisecond)
			checkpoint()
		}
		stop()
	})
	if len(errs) > 0 {
		c.FailSig("operator-rejects", "%s", strings.Join(errs, "; "))
	}
	if len(h.failures) > 0 {
		sig := "handler-state"
		if h.restored {
			sig = "handler-state-after-restore"
		}
		c.FailSig(sig, "%s", strings.Join(h.failures, "; "))
	}
	if h.multi > 0 {
		c.Note("batches_with_2plus_events_of_one_key")
	}
	if h.afterRes > 0 {
		c.Note("executions_with_non_empty_state_supplied_after_restore")
	}
	if rewrites > 0 {
		var all []string
		for _, s := range opSubjects {
			all = append(all, renderShadow(h.shadow[s]))
		}
		c.Nontrivial(fmt.Sprint(batch, mem, all, h.batches))
	}
}
