// Package oph: shared harness pieces for driving a real operator.Operator: a recording job,
// a reference handler whose state is the set of applied events, event constructors.
package oph

import (
	"context"
	"fmt"
	"sort"
	"strings"
	"time"

	"google.golang.org/protobuf/types/known/timestamppb"
	"reduction.dev/reduction-protocol/handlerpb"
	"reduction.dev/reduction/proto"
	"reduction.dev/reduction/proto/jobpb"
	"reduction.dev/reduction/proto/snapshotpb"
	"reduction.dev/reduction/proto/workerpb"
	"verif.local/mc/shim"
)

// Completion is one OperatorCheckpointComplete call as the job saw it.
type Completion struct {
	Req          *snapshotpb.OperatorCheckpoint
	AppliedCount int // number of handler-applied items at the moment of the call
}

// Job is the harness proto.Job of one operator.
type Job struct {
	proto.NoopJob
	H           *Handler
	Registered  chan struct{}
	Completions []Completion
	OnComplete  func(*snapshotpb.OperatorCheckpoint) error
	registered  bool
}

func NewJob(h *Handler) *Job { return &Job{H: h, Registered: make(chan struct{}, 4)} }

func (j *Job) RegisterOperator(ctx context.Context, id *jobpb.NodeIdentity) error {
	if !j.registered {
		j.registered = true
		shim.Send(j.Registered, func() { j.Registered <- struct{}{} })
	}
	return nil
}

func (j *Job) OperatorCheckpointComplete(ctx context.Context, req *snapshotpb.OperatorCheckpoint) error {
	shim.Point("rpc:OperatorCheckpointComplete")
	j.Completions = append(j.Completions, Completion{Req: req, AppliedCount: len(j.H.Applied)})
	if j.OnComplete != nil {
		return j.OnComplete(req)
	}
	return nil
}

// Applied is one item the handler was given, in order.
type Applied struct {
	Key   string
	ID    string // event id, or "timer@<unix seconds>" for an expired timer
	Timer bool
	WM    int64 // watermark the handler was told with the batch (unix nanoseconds)
}

// Handler is the reference handler: the state of a key is the set of ids of the events
// applied to it (one state entry per event under namespace "e"); an event whose value starts
// with "T<n>:" also registers a timer at n seconds.
type Handler struct {
	Applied  []Applied
	Shadow   map[string]map[string]bool // key -> applied event ids (what the state must show)
	Failures []string
	Batches  int
	// Latency, when set, is called at the start of every ProcessEventBatch (a scheduling point).
	Latency func()
}

func NewHandler() *Handler { return &Handler{Shadow: map[string]map[string]bool{}} }

func (h *Handler) failf(format string, a ...any) {
	h.Failures = append(h.Failures, fmt.Sprintf(format, a...))
}

func (h *Handler) KeyEventBatch(ctx context.Context, events [][]byte) ([][]*handlerpb.KeyedEvent, error) {
	panic("mc: harness handler: KeyEventBatch is not used by operators")
}

func (h *Handler) ProcessEventBatch(ctx context.Context, req *handlerpb.ProcessEventBatchRequest) (*handlerpb.ProcessEventBatchResponse, error) {
	if h.Latency != nil {
		h.Latency()
	}
	h.Batches++
	// the supplied state of every key must be exactly the events applied to it so far
	seenKeys := map[string]bool{}
	for _, ks := range req.KeyStates {
		k := string(ks.Key)
		if seenKeys[k] {
			h.failf("key %q appears twice in KeyStates of one batch", k)
		}
		seenKeys[k] = true
		var got []string
		for _, ns := range ks.StateEntryNamespaces {
			if ns.Namespace != "e" {
				h.failf("key %q: foreign namespace %q in supplied state", k, ns.Namespace)
			}
			for _, e := range ns.Entries {
				got = append(got, string(e.Key))
			}
		}
		var want []string
		for id := range h.Shadow[k] {
			want = append(want, id)
		}
		sort.Strings(got)
		sort.Strings(want)
		if strings.Join(got, ",") != strings.Join(want, ",") {
			h.failf("key %q: supplied state %v, events applied so far %v", k, got, want)
		}
	}
	wm := req.Watermark.AsTime().UnixNano()
	results := map[string]*handlerpb.KeyResult{}
	var order []string
	res := func(k string) *handlerpb.KeyResult {
		if r, ok := results[k]; ok {
			return r
		}
		r := &handlerpb.KeyResult{Key: []byte(k), StateMutationNamespaces: []*handlerpb.StateMutationNamespace{{Namespace: "e"}}}
		results[k] = r
		order = append(order, k)
		return r
	}
	for _, ev := range req.Events {
		switch e := ev.Event.(type) {
		case *handlerpb.Event_KeyedEvent:
			k, id := string(e.KeyedEvent.Key), string(e.KeyedEvent.Value)
			if !seenKeys[k] {
				h.failf("event %s of key %q arrived without the key's state", id, k)
			}
			if h.Shadow[k] == nil {
				h.Shadow[k] = map[string]bool{}
			}
			if h.Shadow[k][id] {
				h.failf("event %s applied twice to key %q", id, k)
			}
			h.Shadow[k][id] = true
			h.Applied = append(h.Applied, Applied{Key: k, ID: id, WM: wm})
			r := res(k)
			r.StateMutationNamespaces[0].Mutations = append(r.StateMutationNamespaces[0].Mutations,
				&handlerpb.StateMutation{Mutation: &handlerpb.StateMutation_Put{Put: &handlerpb.PutMutation{Key: []byte(id), Value: []byte("1")}}})
			if strings.HasPrefix(id, "T") {
				var secs int64
				fmt.Sscanf(id, "T%d:", &secs)
				r.NewTimers = append(r.NewTimers, timestamppb.New(time.Unix(secs, 0)))
			}
		case *handlerpb.Event_TimerExpired:
			k := string(e.TimerExpired.Key)
			h.Applied = append(h.Applied, Applied{Key: k, ID: fmt.Sprintf("timer@%d", e.TimerExpired.Timestamp.AsTime().Unix()), Timer: true, WM: wm})
			res(k)
		}
	}
	resp := &handlerpb.ProcessEventBatchResponse{}
	for _, k := range order {
		resp.KeyResults = append(resp.KeyResults, results[k])
	}
	return resp, nil
}

// Keyed builds a keyed event; its value is the event id.
func Keyed(key, id string, ts int64) *workerpb.Event {
	return &workerpb.Event{Event: &workerpb.Event_KeyedEvent{KeyedEvent: &handlerpb.KeyedEvent{Key: []byte(key), Value: []byte(id), Timestamp: timestamppb.New(time.Unix(ts, 0))}}}
}

func Watermark(secs int64) *workerpb.Event {
	return &workerpb.Event{Event: &workerpb.Event_Watermark{Watermark: &workerpb.Watermark{Timestamp: timestamppb.New(time.Unix(secs, 0))}}}
}

func Barrier(id uint64) *workerpb.Event {
	return &workerpb.Event{Event: &workerpb.Event_CheckpointBarrier{CheckpointBarrier: &workerpb.CheckpointBarrier{CheckpointId: id}}}
}
