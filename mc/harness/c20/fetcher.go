package c20

import (
	"context"
	"fmt"
	"slices"
	"time"

	"reduction.dev/reduction/batching"
	"verif.local/mc/harness/schedh"
	"verif.local/mc/mc"
	"verif.local/mc/shim"
)

type fparams struct {
	items int
}

// fetcherBody: a producer adds items, the fetch function has arbitrary latency (a scheduling
// point), a consumer drains Output; the batch time-out runs on virtual time.
func fetcherBody(c *mc.Ctx) {
	p := c.Param.(fparams)
	size := 1 + c.Choose(2)
	delay := []time.Duration{10 * time.Millisecond, 0}[c.Choose(2)]
	buf := 1 + c.Choose(2)
	c.Op("[items=%d MaxSize=%d MaxDelay=%v BufferSize=%d]", p.items, size, delay, buf)
	var got, pauses []int
	var fetchErrs int
	schedh.Run(c, schedh.Opts{MaxSteps: 4000, MaxAdvances: 8}, func() {
		ctx, cancel := context.WithCancel(context.Background())
		errCh := make(chan error, 8)
		batcher := batching.NewEventBatcher[int](ctx, batching.EventBatcherParams{MaxSize: size, MaxDelay: delay})
		rf := batching.NewReorderFetcher(ctx, batching.NewReorderFetcherParams[int, int]{
			Batcher: batcher, ErrChan: errCh, BufferSize: buf,
			FetchBatch: func(ctx context.Context, events []int) ([]int, error) {
				shim.Point("fetch-latency")
				out := make([]int, len(events))
				for i, e := range events {
					out[i] = e * 10
				}
				return out, nil
			},
		})
		done := make(chan struct{})
		shim.Go(func() {
			for len(got) < p.items {
				got = append(got, shim.Recv(rf.Output))
			}
			shim.Close(done)
		})
		for i := 0; i < p.items; i++ {
			// a slow producer lets the batch time-out land between two items (enumerated)
			if i > 0 && delay > 0 && c.Choose(2) == 1 {
				pauses = append(pauses, i)
				shim.Sleep(15 * time.Millisecond)
			}
			rf.Add(ctx, i)
		}
		rf.Flush(ctx)
		shim.Recv(done)
		fetchErrs = len(errCh)
		cancel()
	})
	want := make([]int, p.items)
	for i := range want {
		want[i] = i * 10
	}
	c.Op("producer paused before items %v; output=%v", pauses, got)
	if fetchErrs > 0 {
		c.Failf("fetch errors reported")
	}
	if !slices.Equal(got, want) {
		sig := "fetcher-reordered"
		s2 := slices.Clone(got)
		slices.Sort(s2)
		if !slices.Equal(s2, want) {
			sig = "fetcher-lost-or-duplicated"
		}
		c.FailSig(sig, "ReorderFetcher output %v, inputs map to %v", got, want)
	}
	c.Outcome(fmt.Sprint(size, delay, buf, pauses, got))
	c.Nontrivial(fmt.Sprint(size, delay, buf, pauses, c.Used()))
}
