// Package c12: a job checkpoint is all-or-nothing and checkpoint ids only grow (DESIGN §5 C12).
// Explicit-state search over the real snapshots.Store.
package c12

import (
	"fmt"
	"sort"
	"strings"
	"time"

	gproto "google.golang.org/protobuf/proto"
	"reduction.dev/reduction/connectors"
	"reduction.dev/reduction/proto/jobpb"
	"reduction.dev/reduction/proto/snapshotpb"
	"reduction.dev/reduction/storage/snapshots"
	"verif.local/mc/harness/jobh"
	"verif.local/mc/mc"
	"verif.local/mc/report"
)

type params struct{ depth int }

type splitter struct {
	connectors.UnimplementedSourceSplitter
}

func (s *splitter) IsSourceSplitter()  {}
func (s *splitter) Checkpoint() []byte { return []byte("splitter-state") }

type pending struct {
	id      uint64
	sp      bool
	ops     map[string]bool
	srs     map[string]bool
	entries []string
	splits  []string
}

type model struct {
	counter      uint64
	pend         *pending
	completed    uint64
	compOps      []string // operator entries of the completed checkpoint, sorted
	compSplits   []string // split states, sorted
	maxPublished uint64
	savepoints   map[uint64]bool
}

func (m *model) dump() string {
	out := fmt.Sprintf("ctr=%d completed=[", m.counter)
	if m.completed > 0 {
		out += fmt.Sprintf("%d ", m.completed)
	}
	out += "]"
	if p := m.pend; p != nil {
		var ops, srs []string
		for id, done := range p.ops {
			ops = append(ops, fmt.Sprintf("%s=%v", id, done))
		}
		for id, done := range p.srs {
			srs = append(srs, fmt.Sprintf("%s=%v", id, done))
		}
		sort.Strings(ops)
		sort.Strings(srs)
		out += fmt.Sprintf(" pending{id=%d sp=%v ops=%v srs=%v entries=%v splits=%v}", p.id, p.sp, ops, srs, p.entries, p.splits)
	}
	return out
}

func (p *pending) complete() bool {
	for _, d := range p.ops {
		if !d {
			return false
		}
	}
	for _, d := range p.srs {
		if !d {
			return false
		}
	}
	return true
}

type world struct {
	c        *mc.Ctx
	loc      *jobh.MemLoc
	store    *snapshots.Store
	events   chan string
	retained chan []uint64
	opsCh    chan string
	ops, srs []string
	m        *model
}

func (w *world) newStore() {
	w.events = make(chan string, 16)
	w.retained = make(chan []uint64, 16)
	w.store = snapshots.NewStore(&snapshots.NewStoreParams{FileStore: w.loc, SavepointsPath: "savepoints", CheckpointsPath: "checkpoints",
		CheckpointEvents: w.events, RetainedCheckpointsUpdated: w.retained})
	w.store.RegisterSourceSplitter(&splitter{})
}

func Run(k *report.Check) {
	k.Rule = "concurrent part: the acknowledgements of one checkpoint, optionally a duplicate acknowledgement and a racing CreateCheckpoint, each on a thread of its own against the real Store with a slow splitter, every schedule within the delay bound: exactly one publication and one splitter checkpoint per completed checkpoint, no acknowledgement of the assembly rejected, the newest snapshot present and complete, a checkpoint started by the racing call completable, ids growing across a restart. Sequential part: explicit-state search over the real snapshots.Store: events = CreateCheckpoint, CreateSavepoint, operator acknowledgement (sender in assembly or a foreign node; id in {pending-1, pending, pending+1}; duplicates), source-runner acknowledgement (same), restart of the store over the same storage, abandonment of the pending checkpoint (its id stays spent); assemblies (1 operator,1 runner), (2,1), (2,2). Publishing runs to quiescence after every event. The store's in-memory state, CurrentCheckpoint, the files in storage (decoded) and the retained-checkpoint notifications are compared with a reference model after every event. States (store dump + files + model) are deduplicated. non-trivial = distinct states with a pending checkpoint that has at least one acknowledgement, or reached through a duplicate / mismatched / foreign acknowledgement"
	k.Assumptions = []string{"in-memory StorageLocation with lexicographic listing", "publication goroutines are awaited after every event (their interleavings are C13's subject)"}
	k.Budget(100, 900)
	p := params{depth: k.Pick(14, 24)}
	k.Parts(3)
	k.Explore(fmt.Sprintf("store/d=%d", p.depth), mc.Config{}, p, body)
	bound := k.Pick(3, 4)
	for n := 1; n <= 2; n++ {
		k.ExploreSched(fmt.Sprintf("concurrent-acks/operators=%d,delays<=%d", n, bound), mc.Config{Bound: bound}, cparams{nOps: n}, concurrentBody)
	}
}

func seg(id uint64) string { return snapshots.VerifPathSegment(id) }

func body(c *mc.Ctx) {
	p := c.Param.(params)
	asm := [][2]int{{1, 1}, {2, 1}, {2, 2}}[c.Choose(3)]
	w := &world{c: c, loc: jobh.NewMemLoc(), m: &model{savepoints: map[uint64]bool{}}}
	w.ops, w.srs = []string{"o1", "o2"}[:asm[0]], []string{"s1", "s2"}[:asm[1]]
	c.Op("[operators=%v runners=%v]", w.ops, w.srs)
	// every operator's dkv checkpoint handle points at a (minimal, real-format) checkpoints file
	for _, o := range append([]string{"ghost"}, w.ops...) {
		w.loc.Files[o+"/checkpoints"] = []byte(`{"checkpoints":[{"id":1,"wals":[],"levels":[]}]}`)
	}
	w.opsCh = make(chan string, 64)
	w.loc.OnOp = func(op string) {
		if strings.HasPrefix(op, "remove ") {
			w.opsCh <- op
		}
	}
	w.newStore()
	odd := false
	for step := 0; step < p.depth; step++ {
		if c.Fresh() && c.Seen(w.stateKey(), p.depth-step) {
			return
		}
		senders := 1 + len(w.ops) // + ghost
		srSenders := 1 + len(w.srs)
		nOpAck, nSrAck := senders*3, srSenders*3
		op := c.Choose(1 + 2 + nOpAck + nSrAck + 2)
		base := w.m.counter
		if w.m.pend != nil {
			base = w.m.pend.id
		}
		switch {
		case op == 0:
			return
		case op == 1:
			c.Op("CreateCheckpoint")
			id, err := w.store.CreateCheckpoint(w.ops, w.srs)
			if w.m.pend != nil {
				if err == nil {
					c.FailSig("second-pending", "CreateCheckpoint succeeded (id %d) while checkpoint %d is in progress", id, w.m.pend.id)
				}
			} else {
				w.m.counter++
				w.m.pend = newPending(w.m.counter, w.ops, w.srs)
				if err != nil || id != w.m.counter {
					c.Failf("CreateCheckpoint = %d, %v; want %d", id, err, w.m.counter)
				}
			}
		case op == 2:
			c.Op("CreateSavepoint")
			id, created, err := w.store.CreateSavepoint(w.ops, w.srs)
			switch {
			case w.m.pend != nil && w.m.pend.sp:
				if err == nil {
					c.Failf("CreateSavepoint succeeded while a savepoint is already in progress")
				}
			case w.m.pend != nil:
				w.m.pend.sp = true
				if err != nil || created || id != w.m.pend.id {
					c.FailSig("savepoint-not-folded", "CreateSavepoint = %d, created=%v, %v; want it folded into pending checkpoint %d", id, created, err, w.m.pend.id)
				}
			default:
				w.m.counter++
				w.m.pend = newPending(w.m.counter, w.ops, w.srs)
				w.m.pend.sp = true
				if err != nil || !created || id != w.m.counter {
					c.Failf("CreateSavepoint = %d, created=%v, %v; want new checkpoint %d", id, created, err, w.m.counter)
				}
			}
		case op <= 2+nOpAck:
			i := op - 3
			sender := append([]string{"ghost"}, w.ops...)[i/3]
			id := base + uint64(i%3) - 1
			if base == 0 && i%3 == 0 {
				continue
			}
			c.Op("OperatorAck(%s,%d)", sender, id)
			err := w.store.AddOperatorSnapshot(&snapshotpb.OperatorCheckpoint{CheckpointId: id, OperatorId: sender, DkvFileUri: sender + "/checkpoints"})
			pd := w.m.pend
			switch {
			case pd == nil || pd.id != id:
				odd = true
				if err == nil {
					c.Failf("OperatorAck(%s,%d) accepted although the pending checkpoint is %v", sender, id, pendID(pd))
				}
			default:
				done, known := pd.ops[sender]
				if !known || done {
					odd = true // foreign or duplicate: ignored
				} else {
					pd.ops[sender] = true
					pd.entries = append(pd.entries, sender)
				}
				if err != nil {
					c.Failf("OperatorAck(%s,%d): %v", sender, id, err)
				}
			}
		case op <= 2+nOpAck+nSrAck:
			i := op - 3 - nOpAck
			sender := append([]string{"ghost"}, w.srs...)[i/3]
			id := base + uint64(i%3) - 1
			if base == 0 && i%3 == 0 {
				continue
			}
			c.Op("RunnerAck(%s,%d)", sender, id)
			split := fmt.Sprintf("%s:%d", sender, id)
			err := w.store.AddSourceSnapshot(&jobpb.SourceRunnerCheckpointCompleteRequest{CheckpointId: id, SourceRunnerId: sender, SplitStates: [][]byte{[]byte(split)}})
			pd := w.m.pend
			switch {
			case pd == nil || pd.id != id:
				odd = true
				if err == nil {
					c.Failf("RunnerAck(%s,%d) accepted although the pending checkpoint is %v", sender, id, pendID(pd))
				}
			default:
				done, known := pd.srs[sender]
				switch {
				case !known:
					odd = true
					if err == nil {
						c.Failf("RunnerAck from foreign runner %s accepted", sender)
					}
				case done:
					odd = true // duplicate: must change nothing
				default:
					pd.srs[sender] = true
					pd.splits = append(pd.splits, split)
					if err != nil {
						c.Failf("RunnerAck(%s,%d): %v", sender, id, err)
					}
				}
			}
		case op == 2+nOpAck+nSrAck+2:
			// what the job does when a new assembly starts: the unfinished checkpoint of the lost
			// assembly is given up; its id is spent (a late acknowledgement for it must not fit a
			// later checkpoint)
			c.Op("AbandonPendingCheckpoint")
			w.store.AbandonPendingCheckpoint()
			w.m.pend = nil
		default:
			c.Op("Restart")
			w.newStore()
			func() {
				defer func() {
					if r := recover(); r != nil {
						if s, ok := r.(string); ok && !strings.HasPrefix(s, "mc: ") {
							c.FailSig("restart-panics", "LoadCheckpoint panics: %s", s)
						}
						panic(r)
					}
				}()
				if err := w.store.LoadCheckpoint(); err != nil {
					c.Failf("LoadCheckpoint: %v", err)
				}
			}()
			w.m.pend = nil
			w.m.counter = w.m.completed
		}
		w.settle()
		if c.Fresh() && (odd || (w.m.pend != nil && len(w.m.pend.entries)+len(w.m.pend.splits) > 0)) {
			c.Nontrivial(w.stateKey())
		}
	}
}

func pendID(p *pending) string {
	if p == nil {
		return "none"
	}
	return fmt.Sprint(p.id)
}

func newPending(id uint64, ops, srs []string) *pending {
	p := &pending{id: id, ops: map[string]bool{}, srs: map[string]bool{}}
	for _, o := range ops {
		p.ops[o] = false
	}
	for _, s := range srs {
		p.srs[s] = false
	}
	return p
}

func (w *world) stateKey() string {
	files := w.loc.Names()
	return fmt.Sprint(w.ops, w.srs, "|", w.store.VerifDump(), "|", files, "|", w.m.dump(), w.m.maxPublished)
}

// settle lets the model publish if its pending checkpoint is complete, waits for the real
// store's publication to finish, and compares everything observable.
func (w *world) settle() {
	c := w.c
	var wantRetained [][]uint64
	var published *pending
	if pd := w.m.pend; pd != nil && pd.complete() {
		published = pd
		if w.m.completed > 0 {
			wantRetained = append(wantRetained, []uint64{pd.id})
		}
		prev := w.m.completed
		w.m.completed = pd.id
		w.m.compOps = append([]string(nil), pd.entries...)
		sort.Strings(w.m.compOps)
		w.m.compSplits = append([]string(nil), pd.splits...)
		sort.Strings(w.m.compSplits)
		if pd.sp {
			w.m.savepoints[pd.id] = true
		}
		w.m.pend = nil
		// wait for the real publication: the subscriber gets the uri last
		select {
		case <-w.events:
		case <-time.After(10 * time.Second):
			c.FailSig("publish-hang", "checkpoint %d was acknowledged by every node but its publication did not finish", pd.id)
		}
		if prev > 0 {
			// obsolete file removal and the retained notification run on goroutines of their own
			deadline := time.After(10 * time.Second)
			select {
			case <-w.opsCh:
			case <-deadline:
				c.FailSig("publish-hang", "obsolete snapshot of checkpoint %d was not removed", prev)
			}
		}
		if pd.id <= w.m.maxPublished {
			c.FailSig("id-not-increasing", "published checkpoint id %d after id %d", pd.id, w.m.maxPublished)
		}
		w.m.maxPublished = pd.id
	}
	// drain storage-op notifications of this event (writes/copies signalled before completion)
	for {
		select {
		case <-w.opsCh:
			continue
		default:
		}
		break
	}
	var gotRetained [][]uint64
	for _, want := range wantRetained {
		select {
		case ids := <-w.retained:
			gotRetained = append(gotRetained, ids)
		case <-time.After(10 * time.Second):
			c.FailSig("no-retained-notification", "no retained-checkpoint notification %v after publishing", want)
		}
	}
	select {
	case ids := <-w.retained:
		c.FailSig("unexpected-retained-notification", "unexpected retained-checkpoint notification %v", ids)
	case uri := <-w.events:
		c.FailSig("unexpected-publication", "unexpected publication %s (model: pending=%s)", uri, pendID(w.m.pend))
	default:
	}
	if fmt.Sprint(gotRetained) != fmt.Sprint(wantRetained) {
		c.FailSig("wrong-retained-notification", "retained notifications %v, want %v", gotRetained, wantRetained)
	}
	if !c.Fresh() {
		return
	}
	// in-memory state
	if got, want := w.store.VerifDump(), w.m.dump(); got != want {
		sig := "store-state-diverges"
		if strings.Contains(got, "splits=") && published == nil && w.m.pend != nil && !strings.Contains(got, fmt.Sprintf("splits=%v", w.m.pend.splits)) {
			sig = "duplicate-ack-changes-pending"
		}
		c.FailSig(sig, "store state is\n   %s\nwant\n   %s", got, want)
	}
	cur := w.store.CurrentCheckpoint()
	if (cur == nil) != (w.m.completed == 0) || (cur != nil && cur.Id != w.m.completed) {
		c.Failf("CurrentCheckpoint = %v, want id %d", cur, w.m.completed)
	}
	// files
	var wantFiles []string
	if w.m.completed > 0 {
		wantFiles = append(wantFiles, "checkpoints/job-"+seg(w.m.completed)+".snapshot")
	}
	var gotFiles []string
	for _, n := range w.loc.Names() {
		if strings.HasSuffix(n, ".snapshot") {
			gotFiles = append(gotFiles, n)
		}
	}
	if fmt.Sprint(gotFiles) != fmt.Sprint(wantFiles) {
		c.FailSig("snapshot-files", "snapshot files in storage %v, want %v", gotFiles, wantFiles)
	}
	if w.m.completed > 0 {
		data, _ := w.loc.Read(wantFiles[0])
		var snap snapshotpb.JobCheckpoint
		if err := gproto.Unmarshal(data, &snap); err != nil {
			c.Failf("snapshot file does not decode: %v", err)
		}
		var ops, splits []string
		for _, oc := range snap.OperatorCheckpoints {
			ops = append(ops, oc.OperatorId)
			if oc.CheckpointId != snap.Id {
				c.Failf("snapshot %d holds an operator entry for checkpoint %d", snap.Id, oc.CheckpointId)
			}
		}
		for _, sc := range snap.SourceCheckpoints {
			for _, st := range sc.SplitStates {
				splits = append(splits, string(st))
			}
		}
		sort.Strings(ops)
		sort.Strings(splits)
		if snap.Id != w.m.completed || fmt.Sprint(ops) != fmt.Sprint(w.m.compOps) || fmt.Sprint(splits) != fmt.Sprint(w.m.compSplits) {
			sig := "snapshot-content"
			if len(splits) > len(w.m.compSplits) {
				sig = "snapshot-duplicate-splits"
			}
			c.FailSig(sig, "published snapshot {id %d operators %v splits %v}, want {id %d operators %v splits %v}", snap.Id, ops, splits, w.m.completed, w.m.compOps, w.m.compSplits)
		}
		if published != nil && len(ops) != len(w.ops) {
			c.FailSig("snapshot-incomplete", "published snapshot %d has %d operator entries for %d operators", snap.Id, len(ops), len(w.ops))
		}
	}
	// savepoints
	for _, n := range w.loc.Names() {
		if strings.HasSuffix(n, "job.savepoint") {
			ok := false
			for id := range w.m.savepoints {
				ok = ok || n == "savepoints/"+seg(id)+"/job.savepoint"
			}
			if !ok {
				c.FailSig("unexpected-savepoint", "unexpected savepoint file %s", n)
			}
		}
	}
	for id := range w.m.savepoints {
		if _, err := w.loc.Read("savepoints/" + seg(id) + "/job.savepoint"); err != nil {
			c.FailSig("savepoint-missing", "savepoint of checkpoint %d was requested but savepoints/%s/job.savepoint does not exist", id, seg(id))
		}
	}
}
