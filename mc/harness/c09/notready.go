package c09

import (
	"fmt"

	"reduction.dev/reduction/clocks"
	"reduction.dev/reduction/workers/operator"
	"verif.local/mc/mc"
)

// notReadyBody: a neighbour that is asked NeedsTable before its database is open (a restarted
// worker that has registered but not been deployed, an operator that is still restoring) cannot
// know what its checkpoint references. Whatever it does - fail, so that the asker's RPC layer
// retries, or claim the table - it must not answer "not needed": the asker would delete a file
// the checkpoint this operator is about to be restored from may still list.
func notReadyBody(c *mc.Ctx) {
	op := operator.NewOperator(operator.NewOperatorParams{ID: "op", Clock: clocks.NewFrozenClock()})
	uri := []string{"memory:///a/000001.sst", ""}[c.Choose(2)]
	answered, needed := false, false
	func() {
		defer func() { recover() }()
		needed = op.HandleNeedsTable(uri)
		answered = true
	}()
	c.Op("HandleNeedsTable(%q) on an operator that has not been deployed: answered=%v needed=%v", uri, answered, needed)
	if answered && !needed {
		c.FailSig("not-ready-operator-disclaims-table", "an operator whose database is not open yet answers NeedsTable(%q) with a clean 'not needed'", uri)
	}
	c.Nontrivial(fmt.Sprint(uri))
}
