package shim

import "time"

// Timers are the real runtime timers on synctest's fake clock; the scheduler only records
// their deadlines so that it knows how far virtual time may jump.

type timerRec struct {
	deadline time.Time
	period   time.Duration
}

func (s *Sched) addTimer(d time.Duration, period time.Duration) {
	s.mu.Lock()
	s.timers = append(s.timers, &timerRec{deadline: time.Now().Add(d), period: period})
	s.mu.Unlock()
}

// nextDeadline returns the earliest recorded deadline in the future.
func (s *Sched) nextDeadline() (time.Time, bool) {
	s.mu.Lock()
	defer s.mu.Unlock()
	now := time.Now()
	var best time.Time
	found := false
	keep := s.timers[:0]
	for _, t := range s.timers {
		for t.period > 0 && !t.deadline.After(now) {
			t.deadline = t.deadline.Add(t.period)
		}
		if !t.deadline.After(now) {
			continue // expired one-shot
		}
		keep = append(keep, t)
		if !found || t.deadline.Before(best) {
			best, found = t.deadline, true
		}
	}
	s.timers = keep
	return best, found
}

func AfterFunc(d time.Duration, f func()) *time.Timer {
	s := S
	if s == nil {
		return time.AfterFunc(d, f)
	}
	s.addTimer(d, 0)
	// the callback's thread is allocated now, so its id does not depend on firing order
	t := &Thread{s: s, wake: make(chan struct{}), state: tDone, label: "timer"}
	s.mu.Lock()
	t.ID = len(s.threads)
	s.threads = append(s.threads, t)
	s.mu.Unlock()
	return time.AfterFunc(d, func() {
		if S != s {
			return
		}
		g := getg()
		owners.Store(g, s)
		s.mu.Lock()
		s.byG[g] = t
		t.state = tRunning
		s.mu.Unlock()
		defer func() {
			owners.Delete(g)
			s.mu.Lock()
			t.state = tDone
			delete(s.byG, g)
			s.mu.Unlock()
		}()
		Point("timer-fired")
		f()
	})
}

func NewTicker(d time.Duration) *time.Ticker {
	if s := S; s != nil && d < 1000*time.Hour {
		s.addTimer(d, d)
	}
	return time.NewTicker(d)
}

func NewTimer(d time.Duration) *time.Timer {
	if s := S; s != nil {
		s.addTimer(d, 0)
	}
	return time.NewTimer(d)
}

func After(d time.Duration) <-chan time.Time {
	if s := S; s != nil {
		s.addTimer(d, 0)
	}
	return time.After(d)
}

func Sleep(d time.Duration) {
	if s := S; s != nil {
		Point("sleep")
		s.addTimer(d, 0) // recorded when the sleep really starts (virtual time may have moved at the point)
		time.Sleep(d)
		Point("slept")
		return
	}
	time.Sleep(d)
}
