// Package c07: DKV reads return the latest write at every moment (DESIGN §5 C07).
package c07

import (
	"fmt"
	"time"

	"reduction.dev/reduction/dkv"
	"verif.local/mc/harness/dkvh"
	"verif.local/mc/mc"
	"verif.local/mc/report"
	"verif.local/mc/shim"
)

var keys = []string{"a", "ab", "b", "\x80\xff", "\x00"}
var prefixes = []string{"", "a", "ab", "b", "c", "\x80", "\x80\xff"}

type params struct {
	depth, nkeys int
	cfgs         []dkvh.Options
}

func Run(k *report.Check) {
	k.Rule = "one-table-held tier: histories over three keys in which the creation of the n-th table file (n<=4) is held back, so that one flush or compaction step stays in the middle of its work while the other queue proceeds (a flush lands inside a compaction step); reads after every write once everything not held has come to rest, and after the release. schedule tier: four designated colliding histories (overwrite across a rotation, delete of a flushed key, three level-0 tables, a multi-table sorted level) with the foreground thread reading every key and scanning after every write while the real flush and compaction goroutines run under the cooperative scheduler, every schedule within the delay bound; history tier: every sequence of put/delete over colliding keys {a,ab,b,80ff,00} up to the depth, under every tiny option set, with background flush+compaction either completed or held back at every step (sync is an enumerated action); after every write Get of every key and ScanPrefix of every prefix are compared with a map. non-trivial = distinct (options, layout: sealed memtables / tables per level, reference contents) in which a read was served while an overwritten or deleted version of the key still existed in an older memtable or table"
	k.Assumptions = []string{"single writer (as in the operator)", "in the history tier background work is either quiescent or held back before its first storage operation; the schedule tier interleaves it at synchronisation operations", "MemoryFilesystem"}
	k.Budget(150, 1500)
	k.Parts(3)
	p := params{depth: k.Pick(5, 6), nkeys: k.Pick(4, 5), cfgs: dkvh.Configs(k.Thorough())}
	k.ExploreProc(fmt.Sprintf("history/d=%d,keys=%d", p.depth, p.nkeys), mc.Config{}, p, history)
	hp := HeldOneParams(k.Pick(4, 6))
	k.ExploreProc(fmt.Sprintf("history/one-table-held,d=%d", k.Pick(4, 6)), mc.Config{Deadline: k.Within(0.3)}, hp, HeldOne)
	bound := k.Pick(1, 2)
	k.ExploreSched(fmt.Sprintf("schedule/delays<=%d", bound), mc.Config{Bound: bound}, sparams{}, schedBody)
}

func history(c *mc.Ctx) {
	p := c.Param.(params)
	o := p.cfgs[c.Choose(len(p.cfgs))]
	c.Op("[%s]", o)
	dkvh.Tune(o)
	defer shim.SetLocal(nil)
	fs := dkvh.NewFS()
	db := dkv.Open(o.DBOptions(fs), nil)
	ks := keys[:p.nkeys]
	ref := dkvh.Ref{}
	held := false
	shadowed := false // some key has an older version in a sealed memtable or table
	writes := map[string]int{}
	sync := func(label string) {
		c.Op(label)
		fs.Hold(false)
		if err := db.WaitOnTasks(); err != nil {
			c.Failf("background task failed: %v", err)
		}
		held = false
	}
	defer func() { fs.Hold(false) }()
	for step := 0; step < p.depth; step++ {
		op := c.Choose(2*len(ks) + 3)
		switch {
		case op == 0:
			step = p.depth
			continue
		case op == 1:
			sync("sync")
		case op == 2:
			if held {
				continue
			}
			c.Op("hold")
			fs.Hold(true)
			held = true
			continue
		default:
			if held && dkvh.SealedMemtables(db) >= 4 {
				sync("sync(forced:queue)")
				fs.Hold(true)
				held = true
			}
			ki := (op - 3) / 2
			key := ks[ki]
			if (op-3)%2 == 0 {
				val := fmt.Sprintf("v%d", step)
				if step%3 == 1 {
					val = "" // empty values are legal (timers are stored with them)
				}
				c.Op("Put(%q,%q)", key, val)
				db.Put([]byte(key), []byte(val))
				ref[key] = val
			} else {
				c.Op("Delete(%q)", key)
				db.Delete([]byte(key))
				delete(ref, key)
			}
			writes[key]++
			if writes[key] > 1 {
				shadowed = true
			}
			if !held {
				if err := db.WaitOnTasks(); err != nil {
					c.Failf("background task failed: %v", err)
				}
			}
		}
		dkvh.CheckReads(c, "live", db, ref, ks, prefixes)
		lay := dkvh.NoteLayout(c, db)
		if shadowed {
			c.Nontrivial(fmt.Sprint(o, lay, ref))
		}
	}
	sync("sync(final)")
	dkvh.CheckReads(c, "after final sync", db, ref, ks, prefixes)
	c.Outcome(fmt.Sprint(o, ref))
}

// HeldOneParams are the parameters of the one-table-held tier (also run as a part of C18).
func HeldOneParams(depth int) any {
	return params{depth: depth, nkeys: 3, cfgs: []dkvh.Options{{Mem: 30, Table: 80, L0: 1, Smallest: 4500, Ampl: 50}, {Mem: 30, Table: 80, L0: 2, Smallest: 4500, Ampl: 50}, {Mem: 30, Table: 80, L0: 1, Smallest: 9000, Ampl: 200}}}
}

// HeldOne: the creation of one table file - the n-th of the execution, n enumerated - is held back,
// so that the flush or compaction step that writes it stays in the middle of its work (a
// compaction step has already read the level list it works from) while the other queue goes on:
// later flushes publish their tables meanwhile. After every write the harness waits until
// everything that is not held has come to rest, reads, and finally releases the file.
func HeldOne(c *mc.Ctx) {
	p := c.Param.(params)
	o := p.cfgs[c.Choose(len(p.cfgs))]
	nth := 1 + c.Choose(4)
	c.Op("[%s; table file %d is held back]", o, nth)
	dkvh.Tune(o)
	defer shim.SetLocal(nil)
	fs := dkvh.NewFS()
	fs.HoldNth(nth)
	defer fs.Hold(false)
	db := dkv.Open(o.DBOptions(fs), nil)
	ks := keys[:p.nkeys]
	ref := dkvh.Ref{}
	released := false
	settle := func() {
		for i := 0; i < 40000; i++ {
			fl, co := dkv.VerifFlushIdle(), dkv.VerifCompactionIdle()
			if (fl && co) || (fs.Blocked() > 0 && (fl || co)) {
				// confirm: nothing moved in between
				if fl2, co2 := dkv.VerifFlushIdle(), dkv.VerifCompactionIdle(); fl2 == fl && co2 == co {
					return
				}
			}
			time.Sleep(50 * time.Microsecond)
		}
		c.Note("background_work_did_not_settle_within_2s")
	}
	heldSeen := false
	for step := 0; step < p.depth; step++ {
		op := c.Choose(2*len(ks) + 2)
		switch {
		case op == 0:
			step = p.depth
			continue
		case op == 1:
			if released {
				continue
			}
			c.Op("release the held table file")
			fs.Hold(false)
			released = true
			if err := db.WaitOnTasks(); err != nil {
				c.Failf("background task failed: %v", err)
			}
		default:
			ki := (op - 2) / 2
			key := ks[ki]
			if (op-2)%2 == 0 {
				val := fmt.Sprintf("v%d", step)
				c.Op("Put(%q,%s)", key, val)
				db.Put([]byte(key), []byte(val))
				ref[key] = val
			} else {
				c.Op("Delete(%q)", key)
				db.Delete([]byte(key))
				delete(ref, key)
			}
			settle()
		}
		if fs.Blocked() > 0 {
			heldSeen = true
		}
		dkvh.CheckReads(c, "live", db, ref, ks, prefixes)
	}
	c.Op("release, sync")
	fs.Hold(false)
	if err := db.WaitOnTasks(); err != nil {
		c.Failf("background task failed: %v", err)
	}
	dkvh.CheckReads(c, "after the held table file was released and everything finished", db, ref, ks, prefixes)
	if heldSeen {
		c.Note("executions_reading_while_one_table_file_was_held")
		c.Nontrivial(fmt.Sprint(o, nth, dkvh.NoteLayout(c, db), ref))
	}
}
