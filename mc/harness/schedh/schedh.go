// Package schedh: glue between the explorer core and the cooperative scheduler.
package schedh

import (
	"fmt"
	"os"
	"runtime"
	"runtime/debug"
	"strings"
	"sync/atomic"
	"syscall"

	"verif.local/mc/mc"
	"verif.local/mc/shim"
	"verif.local/mc/shim/rand"
)

type chooser struct {
	c        *mc.Ctx
	noAdv    bool
	fixed    bool
	advances int
}

func (ch *chooser) Pick(n int) int {
	if ch.fixed {
		return 0 // default schedule inside components: no choice point
	}
	return ch.c.DelayChoice(n)
}
func (ch *chooser) Advance() bool {
	if ch.noAdv {
		return false
	}
	if ch.c.Deviate(2) == 1 {
		ch.advances++
		return true
	}
	return false
}

// Opts configures one scheduled execution.
type Opts struct {
	MaxSteps       int           // step horizon (default 20000)
	MaxAdvances    int           // virtual-time jumps allowed (default 64)
	NoAdvanceAlt   bool          // time passes only when nothing is runnable
	SelectRotation bool          // which ready select case wins is a (deviation-costed) choice
	AllowCut       bool          // reaching the horizon is not an error
	FixedSchedule  bool          // threads always run in the default order (cluster simulation: branching only at harness choices)
	SigPrefix      func() string // classifies deadlock / horizon failures (evaluated when one is raised)
}

// Run executes body as thread 0 under the scheduler, drawing every decision from c. It
// fails the execution on deadlock, on a panic of any thread and (unless allowed) when the
// horizon is reached.
func Run(c *mc.Ctx, o Opts, body func()) *shim.Sched {
	if o.MaxSteps == 0 {
		o.MaxSteps = 20000
	}
	Housekeeping()
	s := shim.NewSched(&chooser{c: c, noAdv: o.NoAdvanceAlt, fixed: o.FixedSchedule}, o.MaxSteps)
	if o.MaxAdvances > 0 {
		s.MaxAdvances = o.MaxAdvances
	}
	s.NoAdvanceAlt = o.NoAdvanceAlt
	s.KeepTrace = c.Replay || os.Getenv("MC_TRACE") != ""
	rand.Reset()
	if o.SelectRotation {
		shim.SelectRotation = func(n int) int { return c.Deviate(n) }
	} else {
		shim.SelectRotation = nil
	}
	s.Run(body)
	shim.SelectRotation = nil
	if os.Getenv("MC_TRACE") != "" {
		fmt.Fprintf(os.Stderr, "TRACE %s\n", strings.Join(s.Trace, " "))
	}
	if c.Replay && len(s.Trace) > 0 {
		c.Op("    schedule: %s", strings.Join(s.Trace, " "))
	}
	if len(s.Panics) > 0 {
		msg := s.Panics[0]
		first := msg
		if i := strings.IndexByte(first, '\n'); i >= 0 {
			first = first[:i]
		}
		c.FailSig("panic: "+first, "a goroutine of the code under test panicked: %s", msg)
	}
	if s.Deadlock && os.Getenv("MC_STACKS") != "" {
		buf := make([]byte, 1<<20)
		fmt.Fprintf(os.Stderr, "%s\n", buf[:runtime.Stack(buf, true)])
	}
	pre := ""
	if o.SigPrefix != nil && (s.Deadlock || s.Cut) {
		pre = o.SigPrefix()
	}
	if s.Deadlock {
		c.FailSig(pre+"deadlock", "deadlock: no thread can run and no timer is pending: %s", s.Dump())
	}
	if s.Cut && !o.AllowCut {
		c.FailSig(pre+"horizon", "execution did not finish within %d steps / %d time advances: %s", s.MaxSteps, s.MaxAdvances, s.Dump())
	}
	return s
}

// Must formats an internal harness error (never a verdict).
func Must(err error) {
	if err != nil {
		panic(fmt.Sprintf("mc: harness: %v", err))
	}
}

var execCount int

// Housekeeping is called at the start of every scheduled execution (scheduler inactive):
// automatic garbage collection is switched off for the whole process, because table cleanups
// run on a runtime goroutine that would reach scheduling points of an active execution; every
// 40 executions the garbage is collected and the cleanups are awaited here instead.
func Housekeeping() {
	if execCount == 0 {
		debug.SetGCPercent(-1)
	}
	execCount++
	if execCount%40 != 0 {
		return
	}
	var done atomic.Bool
	func() {
		s := new([64]byte)
		runtime.AddCleanup(s, func(d *atomic.Bool) { d.Store(true) }, &done)
	}()
	runtime.GC()
	for i := 0; !done.Load(); i++ {
		runtime.Gosched()
		if i > 1000 {
			osSleep()
		}
	}
}

// osSleep yields the OS thread briefly without touching the bubble's fake clock.
func osSleep() {
	ts := syscall.Timespec{Nsec: 200000}
	syscall.Nanosleep(&ts, nil)
}
