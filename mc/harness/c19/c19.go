// Package c19: in-memory ordered structures against sorted-slice references (DESIGN §5 C19).
package c19

import (
	"bytes"
	"cmp"
	"fmt"
	"iter"
	"slices"
	"sort"
	"strings"

	"reduction.dev/reduction/dkv/mergesort"
	"reduction.dev/reduction/dkv/ziptree"
	"reduction.dev/reduction/util/ds"
	"reduction.dev/reduction/util/iteru"
	"reduction.dev/reduction/util/sliceu"
	"verif.local/mc/mc"
	"verif.local/mc/report"
	"verif.local/mc/shim"
)

var keys = []string{"", "a", "ab", "b", "ba"}
var prefixes = []string{"", "a", "ab", "b", "ba", "c", "aa"}

func Run(k *report.Check) {
	k.Rule = "every operation sequence up to the stated depth over keys {\"\",a,ab,b,ba} (duplicates, prefixes, equal priorities, empty structure) per structure; zip-tree ranks are an enumerated choice in {0,1,2}; non-trivial = distinct canonical (structure contents, last operation) reached with at least one replacement, tie, deletion or eviction"
	k.Assumptions = []string{"comparison functions are total orders", "key/value bytes outside the alphabet are not explored"}
	k.Budget(100, 1200)
	k.Parts(10)
	d := func(q, t int) int { return k.Pick(q, t) }
	k.Explore(fmt.Sprintf("ziptree/d=%d", d(5, 6)), mc.Config{}, d(5, 6), zipTree)
	k.Explore(fmt.Sprintf("heap/d=%d", d(7, 9)), mc.Config{}, d(7, 9), heapBody)
	k.Explore(fmt.Sprintf("ppq/d=%d", d(6, 7)), mc.Config{}, d(6, 7), ppqBody)
	k.Explore(fmt.Sprintf("ppq-4-5-partitions/d=%d", d(6, 7)), mc.Config{}, -d(6, 7), ppqBody)
	k.Explore(fmt.Sprintf("sortedcache/d=%d", d(6, 8)), mc.Config{}, d(6, 8), cacheBody)
	k.Explore(fmt.Sprintf("set/d=%d", d(4, 5)), mc.Config{}, d(4, 5), setBody)
	k.Explore(fmt.Sprintf("sortedmap/d=%d", d(6, 8)), mc.Config{}, d(6, 8), sortedMapBody)
	k.Explore("merge", mc.Config{}, nil, mergeBody)
	k.Explore("mergesorted", mc.Config{}, nil, mergeSortedBody)
	k.Explore("searchunique", mc.Config{}, nil, searchBody)
}

// ---------------------------------------------------------------- zip tree

func zipTree(c *mc.Ctx) {
	depth := c.Param.(int)
	t := ziptree.New()
	ref := map[string]string{}
	ranks := map[string]int{}
	cur := ""
	shim.SetLocal(&shim.Local{Rank: func() uint32 { r := c.Choose(3); c.Op("rank=%d", r); ranks[cur] = r; return uint32(r) }})
	defer shim.SetLocal(nil)
	replaced := false
	for step := 0; step < depth; step++ {
		ki := c.Choose(len(keys) + 1)
		if ki == len(keys) {
			break
		}
		key := keys[ki]
		val := fmt.Sprintf("v%d", step)
		c.Op("Put(%q,%s)", key, val)
		cur = key
		old := t.Put(ziptree.NewKVEntry([]byte(key), []byte(val)))
		if prev, had := ref[key]; had {
			replaced = true
			if old == nil || string(old.Value) != prev || string(old.Key) != key {
				c.Failf("Put(%q) replaced %v, want value %s", key, nodeStr(old), prev)
			}
		} else if old != nil {
			c.Failf("Put(%q) of a new key returned replaced node %v", key, nodeStr(old))
		}
		ref[key] = val
		// lookups
		for _, q := range keys {
			n, ok := t.Get([]byte(q))
			want, has := ref[q]
			if ok != has || (ok && (string(n.Value) != want || string(n.Key) != q)) {
				c.Failf("Get(%q) = %v,%v want %q,%v", q, nodeStr(n), ok, want, has)
			}
		}
		for _, p := range prefixes {
			var want []string
			for q := range ref {
				if strings.HasPrefix(q, p) {
					want = append(want, q)
				}
			}
			sort.Strings(want)
			var got []string
			for n := range t.AscendPrefix([]byte(p)) {
				got = append(got, string(n.Key))
				if string(n.Value) != ref[string(n.Key)] {
					c.Failf("AscendPrefix(%q) yields %q=%s want %s", p, n.Key, n.Value, ref[string(n.Key)])
				}
			}
			if !slices.Equal(got, want) {
				c.Failf("AscendPrefix(%q) = %q want %q", p, got, want)
			}
			// early stop after the first element must not panic or continue
			cnt := 0
			for range t.AscendPrefix([]byte(p)) {
				cnt++
				break
			}
			if cnt > 1 {
				c.Failf("AscendPrefix(%q) continued after stop", p)
			}
		}
	}
	if replaced || len(ref) >= 3 {
		c.Nontrivial(fmt.Sprint(ranks, replaced))
	}
	c.Outcome(fmt.Sprint(ranks))
}

func nodeStr(n *ziptree.Node) string {
	if n == nil {
		return "<nil>"
	}
	return fmt.Sprintf("%q=%s", n.Key, n.Value)
}

// ---------------------------------------------------------------- heap

type hel struct {
	id, prio, idx int
}

func heapBody(c *mc.Ctx) {
	depth := c.Param.(int)
	h := ds.NewHeap(func(a, b *hel) int { return cmp.Compare(a.prio, b.prio) }, 0)
	h.SetIndexAssigner(func(e *hel, i int) { e.idx = i })
	var live []*hel
	nextID := 0
	interesting := false
	checkIdx := func() {
		seen := map[int]bool{}
		for _, e := range live {
			if e.idx < 0 || e.idx >= len(live) || seen[e.idx] {
				c.Failf("heap index callbacks inconsistent: element id=%d prio=%d has index %d among %d live elements", e.id, e.prio, e.idx, len(live))
			}
			seen[e.idx] = true
		}
		if h.Size() != len(live) || h.IsEmpty() != (len(live) == 0) {
			c.Failf("Size()=%d IsEmpty()=%v want %d", h.Size(), h.IsEmpty(), len(live))
		}
	}
	minPrio := func() int {
		m := live[0].prio
		for _, e := range live {
			m = min(m, e.prio)
		}
		return m
	}
	pop := func() {
		e, ok := h.Pop()
		if ok != (len(live) > 0) {
			c.Failf("Pop() ok=%v with %d live elements", ok, len(live))
		}
		if !ok {
			return
		}
		if e.prio != minPrio() {
			c.Failf("Pop() returned prio %d, minimum is %d", e.prio, minPrio())
		}
		i := slices.Index(live, e)
		if i < 0 {
			c.Failf("Pop() returned an element that is not in the heap (id=%d)", e.id)
		}
		live = slices.Delete(live, i, i+1)
		if e.idx != -1 {
			c.FailSig("heap-pop-index", "Pop() left index %d on the removed element (want -1)", e.idx)
		}
		checkIdx()
	}
	for step := 0; step < depth; step++ {
		op := c.Choose(7)
		switch {
		case op == 0: // stop and drain
			step = depth
		case op <= 3:
			e := &hel{id: nextID, prio: op - 1, idx: -2}
			nextID++
			c.Op("Push(p%d)", e.prio)
			h.Push(e)
			live = append(live, e)
			checkIdx()
		case op == 4:
			c.Op("Pop")
			pop()
		case op == 5:
			c.Op("Peek")
			e, ok := h.Peek()
			if ok != (len(live) > 0) || (ok && e.prio != minPrio()) {
				c.Failf("Peek() = %v,%v", e, ok)
			}
		case op == 6:
			if len(live) == 0 {
				c.Op("Fix(-1)")
				h.Fix(-1)
				continue
			}
			j := c.Choose(len(live))
			np := c.Choose(3)
			c.Op("SetPrio(id%d,p%d)+Fix", live[j].id, np)
			live[j].prio = np
			h.Fix(live[j].idx)
			checkIdx()
			interesting = true
		}
	}
	n := len(live)
	var ps []int
	for _, e := range live {
		ps = append(ps, e.prio*100+e.idx)
	}
	final := fmt.Sprint(ps, interesting)
	c.Op("Drain")
	last := -1
	for len(live) > 0 {
		before := len(live)
		p := minPrio()
		pop()
		if p < last || len(live) != before-1 {
			c.Failf("drain out of order")
		}
		last = p
	}
	if _, ok := h.Pop(); ok {
		c.Failf("Pop() on empty heap returned an element")
	}
	if interesting || n >= 3 {
		c.Nontrivial(final)
	}
}

// ---------------------------------------------------------------- partitioned priority queue

type pitem struct{ part, prio, id int }

type slicePart struct {
	items []*pitem
	idx   int
}

func (p *slicePart) Peek() (*pitem, bool) {
	if len(p.items) == 0 {
		return nil, false
	}
	return p.items[0], true
}
func (p *slicePart) Pop() (*pitem, bool) {
	if len(p.items) == 0 {
		return nil, false
	}
	x := p.items[0]
	p.items = p.items[1:]
	return x, true
}
func (p *slicePart) Push(x *pitem) {
	i := sort.Search(len(p.items), func(i int) bool { return p.items[i].prio > x.prio })
	p.items = slices.Insert(p.items, i, x)
}
func (p *slicePart) IsEmpty() bool { return len(p.items) == 0 }
func (p *slicePart) Delete(x *pitem) {
	if i := slices.Index(p.items, x); i >= 0 {
		p.items = slices.Delete(p.items, i, i+1)
	}
}
func (p *slicePart) AssignIndex(i int) { p.idx = i }
func (p *slicePart) Index() int        { return p.idx }

func ppqBody(c *mc.Ctx) {
	depth := c.Param.(int)
	nparts := 2 + c.Choose(2)
	wide := depth < 0 // four or five partitions: the heap of partitions has interior nodes with children
	prios := 3
	if wide {
		depth = -depth
		nparts, prios = 4, 2
		if depth >= 7 {
			nparts = 4 + c.Choose(2)
		}
	}
	c.Op("parts=%d", nparts)
	parts := make([]ds.QueuePartition[*pitem], nparts)
	for i := range parts {
		parts[i] = &slicePart{}
	}
	q := ds.NewPartitionedPriorityQueue(parts, func(a, b *pitem) int { return cmp.Compare(a.prio, b.prio) }, func(x *pitem) int { return x.part })
	var live []*pitem
	id := 0
	minPrio := func() int {
		m := live[0].prio
		for _, e := range live {
			m = min(m, e.prio)
		}
		return m
	}
	check := func() {
		if q.IsEmpty() != (len(live) == 0) {
			c.Failf("IsEmpty()=%v with %d items", q.IsEmpty(), len(live))
		}
		e, ok := q.Peek()
		if ok != (len(live) > 0) || (ok && e.prio != minPrio()) {
			c.Failf("Peek()=%v,%v want min prio", e, ok)
		}
	}
	pop := func() {
		e, ok := q.Pop()
		if ok != (len(live) > 0) {
			c.Failf("Pop() ok=%v with %d items", ok, len(live))
		}
		if !ok {
			return
		}
		if e.prio != minPrio() {
			c.Failf("Pop() returned prio %d (partition %d), minimum is %d", e.prio, e.part, minPrio())
		}
		i := slices.Index(live, e)
		if i < 0 {
			c.Failf("Pop() returned an item not in the queue")
		}
		live = slices.Delete(live, i, i+1)
		check()
	}
	deleted := false
	for step := 0; step < depth; step++ {
		var op int
		if wide { // the wide part leaves popping to the final drain
			op = []int{0, 1, 3}[c.Choose(3)]
		} else {
			op = c.Choose(4)
		}
		switch op {
		case 0:
			step = depth
		case 1:
			it := &pitem{part: c.Choose(nparts), prio: c.Choose(prios), id: id}
			id++
			c.Op("Push(part%d,p%d)", it.part, it.prio)
			q.Push(it)
			live = append(live, it)
			check()
		case 2:
			c.Op("Pop")
			pop()
		case 3:
			if len(live) == 0 {
				continue
			}
			j := c.Choose(len(live))
			c.Op("Delete(part%d,p%d)", live[j].part, live[j].prio)
			q.Delete(live[j])
			live = slices.Delete(live, j, j+1)
			deleted = true
			check()
		}
	}
	n := len(live)
	var ps []int
	for _, e := range live {
		ps = append(ps, e.part*10+e.prio)
	}
	sort.Ints(ps)
	final := fmt.Sprint(nparts, ps, deleted)
	c.Op("Drain")
	for len(live) > 0 {
		pop()
	}
	if _, ok := q.Pop(); ok {
		c.Failf("Pop() on empty queue returned an item")
	}
	if deleted || n >= 3 {
		c.Nontrivial(final)
	}
}

// ---------------------------------------------------------------- sorted cache

var cacheVals = []string{"", "a", "ab", "b"}

func cacheBody(c *mc.Ctx) {
	depth := c.Param.(int)
	maxes := []uint64{1, 3, 4}
	max := maxes[c.Choose(len(maxes))]
	c.Op("max=%d", max)
	s := ds.NewSortedCache(max)
	ref := map[string]bool{}
	sorted := func() []string {
		var ks []string
		for k := range ref {
			ks = append(ks, k)
		}
		sort.Strings(ks)
		return ks
	}
	check := func() {
		size := 0
		for k := range ref {
			size += len(k)
		}
		if s.IsEmpty() != (len(ref) == 0) {
			c.Failf("IsEmpty()=%v want %v", s.IsEmpty(), len(ref) == 0)
		}
		if s.IsFull() != (uint64(size) >= max) {
			c.FailSig("sortedcache-size", "IsFull()=%v but contents %q hold %d bytes of max %d", s.IsFull(), sorted(), size, max)
		}
		m, ok := s.Peek()
		ks := sorted()
		if ok != (len(ks) > 0) || (ok && string(m) != ks[0]) {
			c.Failf("Peek()=%q,%v want first of %q", m, ok, ks)
		}
	}
	interesting := false
	for step := 0; step < depth; step++ {
		op := c.Choose(5)
		switch op {
		case 0:
			step = depth
		case 1:
			v := cacheVals[c.Choose(len(cacheVals))]
			c.Op("Push(%q)", v)
			if ref[v] {
				interesting = true
			}
			s.Push([]byte(v))
			ref[v] = true
		case 2, 3:
			ks := sorted()
			var got []byte
			var ok bool
			want := ""
			if op == 2 {
				c.Op("Pop")
				got, ok = s.Pop()
				if len(ks) > 0 {
					want = ks[0]
				}
			} else {
				c.Op("PopLast")
				got, ok = s.PopLast()
				if len(ks) > 0 {
					want = ks[len(ks)-1]
				}
			}
			if ok != (len(ks) > 0) || (ok && string(got) != want) {
				c.Failf("%s = %q,%v want %q from %q", c.Ops()[len(c.Ops())-1], got, ok, want, ks)
			}
			delete(ref, want)
		case 4:
			v := cacheVals[c.Choose(len(cacheVals))]
			c.Op("Delete(%q)", v)
			s.Delete([]byte(v))
			delete(ref, v)
			interesting = true
		}
		check()
	}
	if interesting {
		c.Nontrivial(fmt.Sprint(max, sorted(), c.Ops()[len(c.Ops())-1]))
	}
}

// ---------------------------------------------------------------- insertion ordered set

func setBody(c *mc.Ctx) {
	depth := c.Param.(int)
	type ver struct {
		s   *ds.Set[string]
		ref []string
	}
	vs := []ver{{ds.NewSet[string](0), nil}}
	elems := []string{"x", "y", "z"}
	check := func() {
		for i, v := range vs {
			if !slices.Equal(v.s.Slice(), v.ref) && !(len(v.s.Slice()) == 0 && len(v.ref) == 0) {
				c.Failf("version %d: Slice()=%v want %v", i, v.s.Slice(), v.ref)
			}
			var all []string
			for e := range v.s.All() {
				all = append(all, e)
			}
			if !slices.Equal(all, v.ref) || v.s.Size() != len(v.ref) {
				c.Failf("version %d: All()=%v Size()=%d want %v", i, all, v.s.Size(), v.ref)
			}
			for _, e := range elems {
				if v.s.Has(e) != slices.Contains(v.ref, e) {
					c.Failf("version %d: Has(%s)=%v, contents %v", i, e, v.s.Has(e), v.ref)
				}
			}
		}
	}
	for step := 0; step < depth; step++ {
		op := c.Choose(5)
		if op == 0 {
			break
		}
		src := len(vs) - 1 - c.Choose(min(len(vs), 2)) // one of the two newest versions
		v := vs[src]
		switch op {
		case 1:
			e := elems[c.Choose(3)]
			c.Op("v%d.Add(%s)", src, e)
			v.s.Add(e)
			if !slices.Contains(v.ref, e) {
				vs[src].ref = append(slices.Clone(v.ref), e)
			}
		case 2:
			e1, e2 := elems[c.Choose(3)], elems[c.Choose(3)]
			c.Op("v%d=v%d.Added(%s,%s)", len(vs), src, e1, e2)
			n := v.s.Added(e1, e2)
			ref := slices.Clone(v.ref)
			for _, e := range []string{e1, e2} {
				if !slices.Contains(ref, e) {
					ref = append(ref, e)
				}
			}
			vs = append(vs, ver{n, ref})
		case 3:
			e1, e2 := elems[c.Choose(3)], elems[c.Choose(3)]
			c.Op("v%d=v%d.Without(%s,%s)", len(vs), src, e1, e2)
			n := v.s.Without(e1, e2)
			var ref []string
			for _, e := range v.ref {
				if e != e1 && e != e2 {
					ref = append(ref, e)
				}
			}
			vs = append(vs, ver{n, ref})
		case 4:
			o := c.Choose(len(vs))
			c.Op("v%d=v%d.Diff(v%d)", len(vs), src, o)
			n := v.s.Diff(vs[o].s)
			var ref []string
			for _, e := range v.ref {
				if !slices.Contains(vs[o].ref, e) {
					ref = append(ref, e)
				}
			}
			vs = append(vs, ver{n, ref})
		}
		check()
	}
	if len(vs) >= 3 {
		var all []string
		for _, v := range vs {
			all = append(all, strings.Join(v.ref, ""))
		}
		c.Nontrivial(strings.Join(all, "|"))
	}
}

// ---------------------------------------------------------------- sorted map

func sortedMapBody(c *mc.Ctx) {
	depth := c.Param.(int)
	m := ds.NewSortedMap[string, int]()
	ref := map[string]int{}
	dels := false
	// the map sorts lazily: whether the contents are read between two updates is part of the
	// sequence (observe is an operation of its own; Set / Delete report through their results)
	observe := func() {
		var ks []string
		for q := range ref {
			ks = append(ks, q)
		}
		sort.Strings(ks)
		if got := m.Keys(); !slices.Equal(got, ks) && !(len(got) == 0 && len(ks) == 0) {
			c.Failf("Keys()=%q want %q", got, ks)
		}
		vals := m.Values()
		i := 0
		for q, v := range m.All() {
			if i >= len(ks) || q != ks[i] || v != ref[q] || vals[i] != v {
				c.Failf("All()/Values() mismatch at %d: %q=%d", i, q, v)
			}
			i++
		}
		if i != len(ks) || m.Size() != len(ks) {
			c.Failf("All() yielded %d entries, Size()=%d, want %d", i, m.Size(), len(ks))
		}
		for _, q := range keys {
			v, ok := m.Get(q)
			rv, rok := ref[q]
			if ok != rok || v != rv || m.Has(q) != rok {
				c.Failf("Get(%q)=%d,%v want %d,%v", q, v, ok, rv, rok)
			}
		}
	}
	for step := 0; step < depth; step++ {
		op := c.Choose(4)
		if op == 0 {
			break
		}
		if op == 3 {
			c.Op("observe")
			observe()
			continue
		}
		key := keys[c.Choose(len(keys))]
		if op == 1 {
			c.Op("Set(%q,%d)", key, step)
			_, had := ref[key]
			if isNew := m.Set(key, step); isNew == had {
				c.Failf("Set(%q) new=%v but key present=%v", key, isNew, had)
			}
			ref[key] = step
		} else {
			c.Op("Delete(%q)", key)
			_, had := ref[key]
			if rm := m.Delete(key); rm != had {
				c.Failf("Delete(%q)=%v want %v", key, rm, had)
			}
			delete(ref, key)
			dels = true
		}
		if m.Size() != len(ref) {
			c.Failf("Size()=%d want %d", m.Size(), len(ref))
		}
	}
	c.Op("observe (final)")
	observe()
	if dels && len(ref) > 0 {
		c.Nontrivial(fmt.Sprint(ref, c.Ops()[len(c.Ops())-2]))
	}
}

// ---------------------------------------------------------------- merge iterators

type mitem struct{ key, src int }

func subsetList(c *mc.Ctx, universe, src int) []mitem {
	mask := c.Choose(1 << universe)
	var l []mitem
	for b := 0; b < universe; b++ {
		if mask&(1<<b) != 0 {
			l = append(l, mitem{b, src})
		}
	}
	return l
}

// mergeBody: mergesort.Merge over <=3 strictly ascending lists from a 4-key universe;
// duplicates across lists resolved by pick (larger src wins); early stop at every position.
func mergeBody(c *mc.Ctx) {
	nl := 1 + c.Choose(3)
	lists := make([][]mitem, nl)
	want := map[int]int{}
	for i := range lists {
		lists[i] = subsetList(c, 4, i)
		for _, it := range lists[i] {
			want[it.key] = i
		}
	}
	c.Op("lists=%v", lists)
	mk := func() []iter.Seq[mitem] {
		var its []iter.Seq[mitem]
		for _, l := range lists {
			its = append(its, slices.Values(l))
		}
		return its
	}
	pick := func(a, b mitem) mitem {
		if a.src > b.src {
			return a
		}
		return b
	}
	var got []mitem
	for it := range mergesort.Merge(mk(), func(a, b mitem) int { return cmp.Compare(a.key, b.key) }, pick) {
		got = append(got, it)
	}
	var wk []int
	for k := range want {
		wk = append(wk, k)
	}
	sort.Ints(wk)
	if len(got) != len(wk) {
		c.Failf("Merge(%v) = %v, want keys %v", lists, got, wk)
	}
	for i, k := range wk {
		if got[i].key != k || got[i].src != want[k] {
			c.Failf("Merge(%v) = %v, want key %d from list %d at %d", lists, got, k, want[k], i)
		}
	}
	stopAt := c.Choose(len(wk) + 1)
	n := 0
	for range mergesort.Merge(mk(), func(a, b mitem) int { return cmp.Compare(a.key, b.key) }, pick) {
		n++
		if n >= stopAt {
			break
		}
	}
	dups := 0
	for _, l := range lists {
		dups += len(l)
	}
	if dups > len(wk) {
		c.Nontrivial(fmt.Sprint(lists, stopAt))
	}
}

// mergeSortedBody: iteru.MergeSorted keeps duplicates; output must be the sorted multiset.
func mergeSortedBody(c *mc.Ctx) {
	nl := c.Choose(4)
	lists := make([][]int, nl)
	var all []int
	for i := range lists {
		n := c.Choose(4)
		prev := 0
		for j := 0; j < n; j++ {
			v := prev + c.Choose(3-prev)
			lists[i] = append(lists[i], v)
			prev = v
			if prev >= 2 {
				prev = 2
			}
		}
		all = append(all, lists[i]...)
	}
	c.Op("lists=%v", lists)
	sort.Ints(all)
	var its []iter.Seq[int]
	for _, l := range lists {
		its = append(its, slices.Values(l))
	}
	var got []int
	for v := range iteru.MergeSorted(its, cmp.Compare[int]) {
		got = append(got, v)
	}
	if !slices.Equal(got, all) && !(len(got) == 0 && len(all) == 0) {
		c.Failf("MergeSorted(%v) = %v want %v", lists, got, all)
	}
	// early stop
	its = its[:0]
	for _, l := range lists {
		its = append(its, slices.Values(l))
	}
	stopAt := c.Choose(len(all) + 1)
	n := 0
	for range iteru.MergeSorted(its, cmp.Compare[int]) {
		n++
		if n >= stopAt {
			break
		}
	}
	if len(all) >= 3 {
		c.Nontrivial(fmt.Sprint(lists, stopAt))
	}
}

// searchBody: SearchUnique over every strictly increasing array drawn from {0..8} (as a
// subset mask, so every length <= 9) and every target in -1..9.
func searchBody(c *mc.Ctx) {
	mask := c.Choose(1 << 9)
	var x []int
	for b := 0; b < 9; b++ {
		if mask&(1<<b) != 0 {
			x = append(x, b)
		}
	}
	for target := -1; target <= 9; target++ {
		i, ok := sliceu.SearchUnique(x, target, func(e int, t int) int { return cmp.Compare(e, t) })
		wi, wok := slices.BinarySearch(x, target)
		if ok != wok || (ok && i != wi) {
			c.Op("x=%v target=%d", x, target)
			c.FailSig("searchunique", "SearchUnique(%v,%d) = %d,%v want %d,%v", x, target, i, ok, wi, wok)
		}
	}
	c.Op("x=%v", x)
	if len(x) >= 2 {
		c.Nontrivial(fmt.Sprint(x))
	}
}

var _ = bytes.Compare
