// Package atomic replaces sync/atomic in instrumented repository code.
package atomic

import (
	ratomic "sync/atomic"

	"verif.local/mc/shim"
)

type Bool struct{ v ratomic.Bool }

func (b *Bool) Load() bool                    { shim.Point("atomic"); return b.v.Load() }
func (b *Bool) Store(x bool)                  { shim.Point("atomic"); b.v.Store(x) }
func (b *Bool) CompareAndSwap(o, n bool) bool { shim.Point("atomic"); return b.v.CompareAndSwap(o, n) }
func (b *Bool) Swap(n bool) bool              { shim.Point("atomic"); return b.v.Swap(n) }

type Uint32 struct{ v ratomic.Uint32 }

func (b *Uint32) Load() uint32   { shim.Point("atomic"); return b.v.Load() }
func (b *Uint32) Store(x uint32) { shim.Point("atomic"); b.v.Store(x) }
func (b *Uint32) CompareAndSwap(o, n uint32) bool {
	shim.Point("atomic")
	return b.v.CompareAndSwap(o, n)
}
func (b *Uint32) Add(d uint32) uint32 { shim.Point("atomic"); return b.v.Add(d) }

type Int64 struct{ v ratomic.Int64 }

func (b *Int64) Load() int64   { shim.Point("atomic"); return b.v.Load() }
func (b *Int64) Store(x int64) { shim.Point("atomic"); b.v.Store(x) }
func (b *Int64) CompareAndSwap(o, n int64) bool {
	shim.Point("atomic")
	return b.v.CompareAndSwap(o, n)
}
func (b *Int64) Add(d int64) int64 { shim.Point("atomic"); return b.v.Add(d) }

type Int32 struct{ v ratomic.Int32 }

func (b *Int32) Load() int32       { shim.Point("atomic"); return b.v.Load() }
func (b *Int32) Store(x int32)     { shim.Point("atomic"); b.v.Store(x) }
func (b *Int32) Add(d int32) int32 { shim.Point("atomic"); return b.v.Add(d) }

type Uint64 struct{ v ratomic.Uint64 }

func (b *Uint64) Load() uint64        { shim.Point("atomic"); return b.v.Load() }
func (b *Uint64) Store(x uint64)      { shim.Point("atomic"); b.v.Store(x) }
func (b *Uint64) Add(d uint64) uint64 { shim.Point("atomic"); return b.v.Add(d) }

func AddInt64(p *int64, d int64) int64 { shim.Point("atomic"); return ratomic.AddInt64(p, d) }
func LoadInt64(p *int64) int64         { shim.Point("atomic"); return ratomic.LoadInt64(p) }
