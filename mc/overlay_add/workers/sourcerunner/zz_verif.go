package sourcerunner

// Added by the verification overlay (never part of /repo): drives the real operatorCluster
// router with recording operators.

import (
	"context"

	"reduction.dev/reduction/batching"
	"reduction.dev/reduction/proto"
	"reduction.dev/reduction/proto/workerpb"
)

type verifRecOp struct {
	proto.UnimplementedOperator
	idx int
	got chan int
}

func (o *verifRecOp) HandleEventBatch(ctx context.Context, batch []*workerpb.Event) error {
	for range batch {
		o.got <- o.idx
	}
	return nil
}

// VerifRouter is a real operatorCluster over n recording operators (event batch size 1).
type VerifRouter struct {
	c      *operatorCluster
	got    chan int
	cancel context.CancelFunc
}

func VerifNewRouter(keyGroupCount, n int) *VerifRouter {
	ctx, cancel := context.WithCancel(context.Background())
	got := make(chan int, 4)
	ops := make([]proto.Operator, n)
	for i := range ops {
		ops[i] = &verifRecOp{idx: i, got: got}
	}
	c := newOperatorCluster(ctx, &newClusterParams{keyGroupCount: keyGroupCount, operators: ops,
		batchingParams: batching.EventBatcherParams{MaxSize: 1}, errChan: make(chan error, 4)})
	return &VerifRouter{c: c, got: got, cancel: cancel}
}

// Route sends one keyed event through routeEvent and returns the index of the operator that
// received it.
func (r *VerifRouter) Route(key []byte) int {
	r.c.routeEvent(key, &workerpb.Event{})
	return <-r.got
}

func (r *VerifRouter) Close() { r.cancel() }
