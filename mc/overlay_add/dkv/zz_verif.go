package dkv

// Added by the verification overlay (never part of /repo): lets harnesses shrink the
// thresholds of databases created deep inside the code under test (Operator.HandleDeploy),
// so that rotation, flush and compaction happen at model-checking scale.

import (
	"reduction.dev/reduction/dkv/bg"
	vshim "verif.local/mc/shim"
)

func verifTuneOptions(o *DBOptions) {
	if v := vshim.TuneValue("MemTableSize"); v != 0 && o.MemTableSize == 0 {
		o.MemTableSize = v
	}
	if v := vshim.TuneValue("TargetFileSize"); v != 0 && o.TargetFileSize == 0 {
		o.TargetFileSize = v
	}
	if v := vshim.TuneValue("MaxWALSize"); v != 0 && o.MaxWALSize == 0 {
		o.MaxWALSize = v
	}
	if v := vshim.TuneValue("NumLevels"); v != 0 && o.NumLevels == 0 {
		o.NumLevels = int(v)
	}
	if v := vshim.TuneValue("L0Trigger"); v != 0 && o.L0TableNumCompactionTrigger == 0 {
		o.L0TableNumCompactionTrigger = int(v)
	}
}

func verifTuneDB(db *DB) {
	if v := vshim.TuneValue("SmallestLevelSize"); v != 0 {
		db.compactor.SmallestLevelSize = int64(v)
	}
	if v := vshim.TuneValue("LevelSizeMultiplier"); v != 0 {
		db.compactor.LevelSizeMultiplier = int(v)
	}
	if v, ok := vshim.TuneLookup("MaxSizeAmplificationPercent"); ok {
		db.compactor.MaxSizeAmplificationPercent = int(v)
	}
}

// VerifResetQueues re-creates the two process-global task queues (between executions of a
// scheduler-driven exploration, where abandoned executions may leave them occupied).
func VerifResetQueues() {
	flushMemTablesQueue = bg.NewQueue(5)
	compactionQueue = bg.NewQueue(5)
}

// VerifQueues is a saved pair of the process-global task queues.
type VerifQueues struct{ f, c *bg.TaskQueue }

// VerifFreshQueues installs fresh global task queues and returns the previous pair: a probe
// database opened meanwhile does not queue behind (deliberately held) tasks of another one.
func VerifFreshQueues() VerifQueues {
	old := VerifQueues{flushMemTablesQueue, compactionQueue}
	flushMemTablesQueue = bg.NewQueue(5)
	compactionQueue = bg.NewQueue(5)
	return old
}

// VerifRestoreQueues puts a saved pair back.
func VerifRestoreQueues(q VerifQueues) { flushMemTablesQueue, compactionQueue = q.f, q.c }

// VerifFlushIdle / VerifCompactionIdle report whether the process-wide flush / compaction queue
// has nothing queued or running.
func VerifFlushIdle() bool      { return flushMemTablesQueue.VerifIdle() }
func VerifCompactionIdle() bool { return compactionQueue.VerifIdle() }
