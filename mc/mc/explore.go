package mc

import (
	"fmt"
	"hash/fnv"
	"os"
	"reflect"
	"runtime"
	"runtime/debug"
	"sort"
	"strconv"
	"strings"
	"sync"
	"sync/atomic"
	"time"
)

// Config bounds one exploration.
type Config struct {
	Bound         int     // maximum accumulated deviation cost
	Workers       int     // goroutines (in-process explorations); default 1
	Deadline      float64 // absolute wall-clock second after which the run stops cleanly; 0 = none
	MaxViolations int     // stop after this many violations (default 6)
	MaxSamples    int     // rendered sample executions to keep (default 4)
	NoDetCheck    bool    // skip the run-twice determinism check (bodies that cannot be repeated)
	// RecycleAfter: a worker process is replaced after this many executions (0 = never).
	RecycleAfter int64
	// SharedSeen: the worker processes share one table of expanded state keys (a memory-mapped
	// file) with this many slots; 0 = every worker process keeps its own.
	SharedSeen uint64
	// WorkerHeapCap: when > 0, a worker process whose live heap exceeds 60 % of this many bytes
	// is replaced after the subtree it is working on (code under test that leaks per execution).
	// Not for harnesses in which a garbage collection is an action of its own: the guard forces one.
	WorkerHeapCap int64
	// IsKnown classifies a violation signature as a listed known finding: such executions are
	// recorded in Result.Known (one per signature), do not stop the search and are not expanded.
	IsKnown func(sig string) bool
}

// Violation is a failing execution, replayable from Choices.
type Violation struct {
	Part    string   `json:"part"`
	Choices []int    `json:"choices"`
	Ops     []string `json:"ops"`
	Msg     string   `json:"msg"`
	Sig     string   `json:"sig"`
	Stack   string   `json:"stack,omitempty"`
}

// Result of one exploration.
type Result struct {
	Name       string
	Execs      int64
	Points     int64
	MaxDepth   int
	Outcomes   int
	Nontrivial int
	Pruned     int64
	Notes      map[string]int64
	Samples    []string
	Violations []*Violation
	Known      []*Violation
	Exhaustive bool
	Bound      int
	WallS      float64
	States     int
}

type item struct {
	prefix []int
}

const shards = 64

type hashSet struct {
	mu [shards]sync.Mutex
	m  [shards]map[uint64]struct{}
}

func newHashSet() *hashSet {
	h := &hashSet{}
	for i := range h.m {
		h.m[i] = map[uint64]struct{}{}
	}
	return h
}

// add returns true if k was new.
func (h *hashSet) add(k uint64) bool {
	i := k % shards
	h.mu[i].Lock()
	_, ok := h.m[i][k]
	if !ok {
		h.m[i][k] = struct{}{}
	}
	h.mu[i].Unlock()
	return !ok
}

func (h *hashSet) len() int {
	n := 0
	for i := range h.m {
		h.mu[i].Lock()
		n += len(h.m[i])
		h.mu[i].Unlock()
	}
	return n
}

type explorer struct {
	cfg   Config
	body  func(*Ctx)
	param any
	name  string

	mu       sync.Mutex
	cond     *sync.Cond
	shared   []item // work offered to idle workers
	idle     int
	stop     atomic.Bool
	timedOut atomic.Bool
	wantWork atomic.Int32 // number of idle workers

	res      *Result // merged under mu
	nviol    atomic.Int32
	outcomes *hashSet
	nontr    *hashSet
	seen     sync.Map  // state key hash -> remaining budget (int)
	seenExt  *sync.Map // when set, used instead of seen (a worker process keeps one for all its subtrees)
	seenShm  *shmSet   // when set, used instead of both (shared by all worker processes of the exploration)
	nseen    atomic.Int64
}

// OverMemory is set by the memory guard (StartMemoryGuard) when the live heap exceeds the cap.
var OverMemory atomic.Bool

// StartMemoryGuard watches the heap of this process: above the cap it forces a collection, and
// if the live heap still exceeds 60 % of the cap it raises OverMemory, which ends the running
// exploration as a capped (non-exhaustive) run. With setLimit the collector also works harder near the cap instead of
// letting the heap grow by its usual factor (not in worker processes, whose harnesses may have
// switched the collector off on purpose).
func StartMemoryGuard(capBytes int64, setLimit bool) {
	if setLimit {
		debug.SetMemoryLimit(capBytes)
	}
	go func() {
		var ms runtime.MemStats
		for {
			time.Sleep(2 * time.Second)
			runtime.ReadMemStats(&ms)
			if int64(ms.HeapAlloc) < capBytes*6/10 {
				continue
			}
			runtime.GC()
			runtime.ReadMemStats(&ms)
			if int64(ms.HeapAlloc) >= capBytes*6/10 {
				OverMemory.Store(true)
				return
			}
		}
	}()
}

func envBytes(name string, def int64) int64 {
	if v, err := strconv.ParseInt(os.Getenv(name), 10, 64); err == nil && v > 0 {
		return v
	}
	return def
}

// StartDefaultMemoryGuard: the cap of a check's main process (VERIF_HEAP_CAP bytes, default 20 GiB).
func StartDefaultMemoryGuard() { StartMemoryGuard(envBytes("VERIF_HEAP_CAP", 20<<30), true) }

func h64(s string) uint64 {
	h := fnv.New64a()
	h.Write([]byte(s))
	return h.Sum64()
}

// seenState implements state-key pruning: true if key was already expanded with at
// least `remaining` budget. Otherwise records it.
func (e *explorer) seenState(key string, remaining int) bool {
	k := h64(key)
	if e.seenShm != nil {
		return e.seenShm.seen(k, remaining)
	}
	seen := &e.seen
	if e.seenExt != nil {
		seen = e.seenExt
	}
	for {
		v, loaded := seen.LoadOrStore(k, remaining)
		if !loaded {
			e.nseen.Add(1)
			return false
		}
		if v.(int) >= remaining {
			return true
		}
		if seen.CompareAndSwap(k, v, remaining) {
			return false
		}
	}
}

type pruneHook interface{ seenState(string, int) bool }

// Seen reports whether the canonical state key was already expanded with at least the
// given remaining budget; the body must stop exploring (return) when it is true.
func (c *Ctx) Seen(key string, remaining int) bool {
	if c.pr == nil || len(c.trail) < len(c.prefix) {
		return false // states along the replayed prefix belong to the parent execution
	}
	if c.pr.seenState(key, remaining) {
		c.pruned = true
		return true
	}
	return false
}

// Explore runs the deviation-bounded exhaustive search of body.
func Explore(name string, cfg Config, param any, body func(*Ctx)) *Result {
	if cfg.Workers <= 0 {
		cfg.Workers = 1
	}
	if cfg.MaxViolations <= 0 {
		cfg.MaxViolations = 6
	}
	if cfg.MaxSamples <= 0 {
		cfg.MaxSamples = 4
	}
	start := Wall()
	e := &explorer{cfg: cfg, body: body, param: param, name: name, outcomes: newHashSet(), nontr: newHashSet()}
	e.cond = sync.NewCond(&e.mu)
	e.res = &Result{Name: name, Notes: map[string]int64{}, Bound: cfg.Bound}

	if !cfg.NoDetCheck {
		a := e.runOne(nil, false)
		b := e.runOne(nil, false)
		if !reflect.DeepEqual(a.trail, b.trail) || !reflect.DeepEqual(a.ops, b.ops) || a.out != b.out || (a.fail == nil) != (b.fail == nil) {
			panic(fmt.Sprintf("mc: NONDETERMINISM in %s: default execution not reproducible\n A: %v | %s\n B: %v | %s", name, a.ops, a.out, b.ops, b.out))
		}
	}

	e.shared = append(e.shared, item{})
	var wg sync.WaitGroup
	for w := 0; w < cfg.Workers; w++ {
		wg.Add(1)
		go func() { defer wg.Done(); e.worker() }()
	}
	wg.Wait()
	r := e.res
	r.Outcomes = e.outcomes.len()
	r.Nontrivial = e.nontr.len()
	r.States = int(e.nseen.Load())
	r.Exhaustive = !e.timedOut.Load() && len(r.Violations) < cfg.MaxViolations
	r.WallS = Wall() - start
	sort.Slice(r.Violations, func(i, j int) bool { return len(r.Violations[i].Choices) < len(r.Violations[j].Choices) })
	sort.Strings(r.Samples)
	return r
}

func (e *explorer) runOne(prefix []int, prune bool) *Ctx {
	c := &Ctx{prefix: prefix, Param: e.param}
	if prune {
		c.pr = e
	}
	runBody(c, e.body)
	return c
}

type wstats struct {
	execs, points, pruned int64
	maxDepth              int
	notes                 map[string]int64
	samples               []string
}

func (e *explorer) worker() {
	var local []item
	st := &wstats{notes: map[string]int64{}}
	defer func() {
		e.mu.Lock()
		r := e.res
		r.Execs += st.execs
		r.Points += st.points
		r.Pruned += st.pruned
		r.MaxDepth = max(r.MaxDepth, st.maxDepth)
		for n, v := range st.notes {
			r.Notes[n] += v
		}
		for _, s := range st.samples {
			if len(r.Samples) < e.cfg.MaxSamples {
				r.Samples = append(r.Samples, s)
			}
		}
		e.mu.Unlock()
	}()
	for {
		if len(local) == 0 {
			e.mu.Lock()
			e.idle++
			e.wantWork.Add(1)
			for len(e.shared) == 0 && e.idle < e.cfg.Workers && !e.stop.Load() {
				e.cond.Wait()
			}
			if e.stop.Load() || len(e.shared) == 0 {
				e.mu.Unlock()
				e.cond.Broadcast()
				return
			}
			e.idle--
			e.wantWork.Add(-1)
			local = append(local, e.shared[len(e.shared)-1])
			e.shared = e.shared[:len(e.shared)-1]
			e.mu.Unlock()
		}
		if e.stop.Load() {
			e.cond.Broadcast()
			return
		}
		// offer the shallowest half of the local stack to idle workers
		if len(local) > 1 && e.wantWork.Load() > 0 {
			h := (len(local) + 1) / 2
			e.mu.Lock()
			e.shared = append(e.shared, local[:h]...)
			e.mu.Unlock()
			e.cond.Broadcast()
			local = append(local[:0], local[h:]...)
		}
		it := local[len(local)-1]
		local = local[:len(local)-1]

		c := e.runOne(it.prefix, true)
		if len(c.trail) < len(it.prefix) {
			panic(fmt.Sprintf("mc: NONDETERMINISM in %s: execution consumed %d choices, prefix has %d (ops: %s)", e.name, len(c.trail), len(it.prefix), strings.Join(c.ops, " ")))
		}

		// children: every alternative at every point after the prefix, within the bound;
		// appended deepest-first so that the deepest alternative is popped first (DFS)
		if c.fail == nil {
			used := 0
			n0 := len(local)
			for i, p := range c.trail {
				if i >= len(it.prefix) {
					for alt := 1; alt < int(p.n); alt++ {
						if used+p.kind.cost(alt) > e.cfg.Bound {
							break // costs are non-decreasing in alt
						}
						np := make([]int, i+1)
						for k := 0; k < i; k++ {
							np[k] = int(c.trail[k].pick)
						}
						np[i] = alt
						local = append(local, item{prefix: np})
					}
				}
				used += p.kind.cost(int(p.pick))
			}
			_ = n0
		}

		st.execs++
		st.points += int64(len(c.trail))
		st.maxDepth = max(st.maxDepth, len(c.trail))
		if c.pruned {
			st.pruned++
		}
		for _, n := range c.notes {
			st.notes[n]++
		}
		if c.out != "" {
			e.outcomes.add(h64(c.out))
		}
		for _, k := range c.nontr {
			if e.nontr.add(h64(k)) && len(st.samples) < e.cfg.MaxSamples && len(c.ops) > 0 && st.execs%5 == 1 {
				st.samples = append(st.samples, strings.Join(c.ops, " "))
			}
		}
		if c.fail != nil {
			sig := c.fail.Sig
			if sig == "" {
				sig = c.fail.Msg
			}
			v := &Violation{Part: e.name, Choices: c.choices(), Ops: c.ops, Msg: c.fail.Msg, Sig: sig, Stack: c.fail.Stack}
			e.mu.Lock()
			r := e.res
			if e.cfg.IsKnown != nil && e.cfg.IsKnown(sig) {
				dup := false
				for _, kv := range r.Known {
					dup = dup || kv.Sig == sig
				}
				if !dup && len(r.Known) < 64 {
					r.Known = append(r.Known, v)
				}
			} else {
				r.Violations = append(r.Violations, v)
				if len(r.Violations) >= e.cfg.MaxViolations {
					e.stop.Store(true)
				}
			}
			e.mu.Unlock()
		}
		if e.cfg.Deadline > 0 && st.execs%64 == 0 && Wall() > e.cfg.Deadline {
			e.stop.Store(true)
			e.timedOut.Store(true)
		}
		if st.execs%64 == 0 && OverMemory.Load() {
			// the process holds too much live memory (code under test that leaks per execution,
			// or a very large state set): the part ends as a capped run, never as a crash
			e.stop.Store(true)
			e.timedOut.Store(true)
			e.mu.Lock()
			e.res.Notes["stopped_by_the_memory_cap"] = 1
			e.mu.Unlock()
		}
	}
}

// ReplayOne runs body once with the recorded choices, outside the explorer.
func ReplayOne(param any, body func(*Ctx), choices []int) (ops []string, fail *Failure) {
	c := &Ctx{prefix: choices, Param: param, Replay: true}
	runBody(c, body)
	return c.ops, c.fail
}
