package jobh

import (
	"context"
	"errors"
	"fmt"
	"sort"

	"reduction.dev/reduction-protocol/jobconfigpb"
	"reduction.dev/reduction/connectors"
	"reduction.dev/reduction/proto"
	"reduction.dev/reduction/proto/snapshotpb"
	"reduction.dev/reduction/proto/workerpb"
	"verif.local/mc/shim"
)

// Call is one call the job made to a (fake) node.
type Call struct {
	Kind   string // "deploy-op", "deploy-sr", "assign", "start-checkpoint", "retain"
	Target string
	Ops    []string // operator ids in a deploy request
	SRs    []string // source runner ids in a deploy request
	Ckpts  []uint64 // checkpoint ids in an operator deploy request / retained ids
	CkptID uint64
}

// Net records every call and decides which nodes are reachable.
type Net struct {
	Calls      []Call
	FailDeploy map[string]bool // the node's next Deploy fails (then the flag clears)
	Dead       map[string]bool // calls to the node fail
	Hold       bool            // Deploy calls block (after being recorded) until Release
	held       []chan struct{}
}

// wait blocks a Deploy call while deployments are held.
func (n *Net) wait() {
	if !n.Hold {
		return
	}
	ch := make(chan struct{})
	n.held = append(n.held, ch)
	shim.Recv(ch)
}

// Held is the number of Deploy calls in flight.
func (n *Net) Held() int { return len(n.held) }

// Release lets every held Deploy call return and stops holding.
func (n *Net) Release() {
	n.Hold = false
	for _, ch := range n.held {
		shim.Close(ch)
	}
	n.held = nil
}

func NewNet() *Net { return &Net{FailDeploy: map[string]bool{}, Dead: map[string]bool{}} }

type FakeOp struct {
	proto.UnimplementedOperator
	Id  string
	Net *Net
}

func (o *FakeOp) ID() string   { return o.Id }
func (o *FakeOp) Host() string { return "h" }
func (o *FakeOp) Deploy(ctx context.Context, req *workerpb.DeployOperatorRequest) error {
	shim.Point("rpc:DeployOperator")
	c := Call{Kind: "deploy-op", Target: o.Id, SRs: req.SourceRunnerIds}
	for _, n := range req.Operators {
		c.Ops = append(c.Ops, n.Id)
	}
	for _, ck := range req.Checkpoints {
		c.Ckpts = append(c.Ckpts, ck.CheckpointId)
	}
	o.Net.Calls = append(o.Net.Calls, c)
	o.Net.wait()
	if o.Net.Dead[o.Id] {
		return errors.New("unreachable")
	}
	if o.Net.FailDeploy[o.Id] {
		delete(o.Net.FailDeploy, o.Id)
		return errors.New("deploy failed")
	}
	return nil
}
func (o *FakeOp) UpdateRetainedCheckpoints(ctx context.Context, ids []uint64) error {
	shim.Point("rpc:UpdateRetainedCheckpoints")
	o.Net.Calls = append(o.Net.Calls, Call{Kind: "retain", Target: o.Id, Ckpts: ids})
	return nil
}

type FakeSR struct {
	Id  string
	Net *Net
}

func (s *FakeSR) ID() string   { return s.Id }
func (s *FakeSR) Host() string { return "h" }
func (s *FakeSR) Deploy(ctx context.Context, req *workerpb.DeploySourceRunnerRequest) error {
	shim.Point("rpc:DeploySourceRunner")
	c := Call{Kind: "deploy-sr", Target: s.Id}
	for _, n := range req.Operators {
		c.Ops = append(c.Ops, n.Id)
	}
	s.Net.Calls = append(s.Net.Calls, c)
	s.Net.wait()
	if s.Net.Dead[s.Id] {
		return errors.New("unreachable")
	}
	if s.Net.FailDeploy[s.Id] {
		delete(s.Net.FailDeploy, s.Id)
		return errors.New("deploy failed")
	}
	return nil
}
func (s *FakeSR) AssignSplits(ctx context.Context, splits []*workerpb.SourceSplit) error {
	shim.Point("rpc:AssignSplits")
	s.Net.Calls = append(s.Net.Calls, Call{Kind: "assign", Target: s.Id})
	return nil
}
func (s *FakeSR) StartCheckpoint(ctx context.Context, id uint64) error {
	shim.Point("rpc:StartCheckpoint")
	s.Net.Calls = append(s.Net.Calls, Call{Kind: "start-checkpoint", Target: s.Id, CkptID: id})
	if s.Net.Dead[s.Id] {
		return errors.New("unreachable")
	}
	return nil
}

// FakeSource is a connectors.SourceConfig whose splitter assigns one split per runner.
type FakeSource struct {
	Splitters int // splitters created so far
}

func (f *FakeSource) Validate() error                   { return nil }
func (f *FakeSource) ProtoMessage() *jobconfigpb.Source { return &jobconfigpb.Source{} }
func (f *FakeSource) NewSourceReader(connectors.SourceReaderHooks) connectors.SourceReader {
	panic("mc: harness: fake source has no reader")
}
func (f *FakeSource) NewSourceSplitter(srIDs []string, hooks connectors.SourceSplitterHooks, errChan chan<- error) connectors.SourceSplitter {
	f.Splitters++
	return &fakeSplitter{srIDs: srIDs, hooks: hooks}
}

type fakeSplitter struct {
	connectors.UnimplementedSourceSplitter
	srIDs []string
	hooks connectors.SourceSplitterHooks
}

func (s *fakeSplitter) IsSourceSplitter()                                             {}
func (s *fakeSplitter) Close() error                                                  { return nil }
func (s *fakeSplitter) Checkpoint() []byte                                            { return []byte("sp") }
func (s *fakeSplitter) NotifySplitsFinished(sourceRunnerID string, splitIDs []string) {}
func (s *fakeSplitter) Start(ckpt *snapshotpb.SourceCheckpoint) error {
	as := map[string][]*workerpb.SourceSplit{}
	ids := append([]string{}, s.srIDs...)
	sort.Strings(ids)
	for i, id := range ids {
		as[id] = []*workerpb.SourceSplit{{SplitId: fmt.Sprintf("split%d", i)}}
	}
	s.hooks.AssignSplits(as)
	return nil
}
