// Package c09: files needed by retained checkpoints or live tables are never deleted
// (DESIGN §5 C09). Garbage collection is an explicit, enumerated action.
package c09

import (
	"encoding/json"
	"fmt"
	"os"
	"regexp"
	"runtime"
	"runtime/debug"
	"sort"
	"strings"

	"reduction.dev/reduction/dkv"
	"reduction.dev/reduction/dkv/kv"
	"reduction.dev/reduction/dkv/recovery"
	"verif.local/mc/harness/dkvh"
	"verif.local/mc/mc"
	"verif.local/mc/report"
	"verif.local/mc/shim"
)

var keys = []string{"k0", "k1", "k2", "k3"}
var prefixes = []string{"", "k", "k1"}

type params struct {
	depth int
	cfgs  []dkvh.Options
}

func Run(k *report.Check) {
	k.Rule = "single database tier: every history up to the depth over {write burst (rotates and flushes), Checkpoint, retention update (keep newest / keep two newest), reopen from a retained handle in the same process (old database object dropped or kept alive; same or new directory), forced garbage collection (runtime.GC + cleanup barrier; two rounds at the end of every execution)}; after every action every file named by a retained checkpoint's document must exist, a scratch restore of every retained handle on a copy of the files must reproduce the captured map, the live database must scan and point-read correctly (touching every table of its level set), and WAL files referenced only by dropped checkpoints must be gone after the retention update - but not earlier: after every single storage step of a retention update (the states a crash or a failed save leaves behind) the checkpoints file stored at that moment must list only checkpoints whose write-ahead logs still exist. Ownership part (scheduler): the real OperatorPartition.ExclusivelyOwnsTable with 1-3 neighbours, every combination of {does not need it, needs it, errors, errors late, answers late, no overlap} and every interleaving of its goroutines within the delay bound: (true, nil) only if every overlapping neighbour answered that it does not need the table. A real Operator that has not been deployed (its database is not open) never answers NeedsTable with a clean 'not needed'. Neighbour tier: a table shared by operators after a rescale with every combination of neighbour answers {needs it, does not, error, hangs}. non-trivial = distinct (file set, retained ids, live databases) states reached by an execution in which a cleanup deleted at least one file"
	k.Assumptions = []string{"a forced runtime.GC plus a sentinel cleanup barrier runs every cleanup of unreachable tables: reported deletions are real; completeness depends on the collector finding the garbage", "MemoryFilesystem"}
	k.Budget(200, 1500)
	k.Parts(k.Pick(6, 7))
	cfgs := []dkvh.Options{{Mem: 40, Table: 64, L0: 2, Smallest: 4500, Ampl: 50}}
	if k.Thorough() {
		cfgs = append(cfgs, dkvh.Options{Mem: 40, Table: 64, L0: 1, Smallest: 4500, Ampl: 50}, dkvh.Options{Mem: 40, Table: 1, L0: 3, Smallest: 9000, Ampl: 200})
	}
	ob := k.Pick(3, 6)
	k.ExploreSched(fmt.Sprintf("sched/exclusive-ownership/n<=3,delays<=%d", ob), mc.Config{Bound: ob, Deadline: k.Within(0.2)}, 3, ownershipBody)
	k.Explore("operator-asked-before-its-database-is-open", mc.Config{}, nil, notReadyBody)
	p := params{depth: k.Pick(5, 6), cfgs: cfgs}
	if os.Getenv("C09_SKIP_SINGLE") == "" { // debugging aid
		k.ExploreProc(fmt.Sprintf("single-db/d=%d", p.depth), mc.Config{Deadline: k.Within(0.45)}, p, single)
	}
	nf := nparams{depth: k.Pick(4, 5), n: 2, groups: 4, redeployedTwice: true}
	k.ExploreProc(fmt.Sprintf("neighbours/redeployed-twice,n=%d,d=%d", nf.n, nf.depth), mc.Config{Deadline: k.Within(0.35), SharedSeen: 1 << 22}, nf, neighbors)
	npc := nparams{depth: k.Pick(3, 4), n: 2, groups: 4, pendingCheckpoint: true}
	k.ExploreProc(fmt.Sprintf("neighbours/pending-job-checkpoint,n=%d,d=2+%d", npc.n, npc.depth), mc.Config{Deadline: k.Within(0.35), SharedSeen: 1 << 22}, npc, neighbors)
	np := nparams{depth: k.Pick(4, 6), n: 2, groups: 4}
	k.ExploreProc(fmt.Sprintf("neighbours/n=%d,d=%d", np.n, np.depth), mc.Config{SharedSeen: 1 << 22}, np, neighbors)
	if k.Thorough() {
		np3 := nparams{depth: 5, n: 3, groups: 6}
		k.ExploreProc(fmt.Sprintf("neighbours/n=%d,d=%d", np3.n, np3.depth), mc.Config{SharedSeen: 1 << 22}, np3, neighbors)
	}
}

func gcBarrier(rounds int) {
	for i := 0; i < rounds; i++ {
		done := make(chan struct{})
		func() {
			s := new([64]byte)
			runtime.AddCleanup(s, func(c chan struct{}) { close(c) }, done)
		}()
		runtime.GC()
		<-done
	}
}

type handle struct {
	id  uint64
	h   recovery.CheckpointHandle
	ref dkvh.Ref
	dir string
}

type live struct {
	db  *dkv.DB
	ref dkvh.Ref
	dir string
}

// sharedOwnership never claims exclusive ownership: a probe database deletes nothing.
type sharedOwnership struct{}

func (sharedOwnership) OwnsKey([]byte) bool { return true }
func (sharedOwnership) ExclusivelyOwnsTable(string, []byte, []byte) (bool, error) {
	return false, nil
}

// tableRange is the key range of a table as recorded in a checkpoints document.
type tableRange struct{ start, end []byte }

var docRanges = map[string]tableRange{} // table uri (as written in the document) -> key range

// filesOf lists the WAL and table URIs of checkpoint id in a checkpoints document.
func filesOf(doc []byte, id uint64) (wals, tables []string, found bool) {
	var d struct {
		Checkpoints []struct {
			ID   uint64 `json:"id"`
			WALs []struct {
				URI string `json:"uri"`
			} `json:"wals"`
			Levels [][]struct {
				URI              string
				StartKey, EndKey []byte
			} `json:"levels"`
		} `json:"checkpoints"`
	}
	if err := json.Unmarshal(doc, &d); err != nil {
		return nil, nil, false
	}
	for _, c := range d.Checkpoints {
		if c.ID != id {
			continue
		}
		for _, w := range c.WALs {
			wals = append(wals, w.URI)
		}
		for _, l := range c.Levels {
			for _, t := range l {
				tables = append(tables, t.URI)
				docRanges[t.URI] = tableRange{t.StartKey, t.EndKey}
			}
		}
		return wals, tables, true
	}
	return nil, nil, false
}

// walsOfAll lists, per checkpoint id, the WAL files a stored checkpoints document references.
func walsOfAll(doc []byte) map[uint64][]string {
	var d struct {
		Checkpoints []struct {
			ID   uint64 `json:"id"`
			WALs []struct {
				URI string `json:"uri"`
			} `json:"wals"`
		} `json:"checkpoints"`
	}
	if json.Unmarshal(doc, &d) != nil {
		return nil
	}
	out := map[uint64][]string{}
	for _, c := range d.Checkpoints {
		for _, w := range c.WALs {
			out[c.ID] = append(out[c.ID], w.URI)
		}
	}
	return out
}

// checkRetentionOrder looks at the file set after every storage step of a retention update (the
// states a crash or a failed save would leave behind): whatever checkpoints file is stored at
// that moment, the write-ahead logs of every checkpoint it lists still exist - logs go only once
// the update has been saved.
func checkRetentionOrder(c *mc.Ctx, evs []dkvh.FSEvent, docURI, what string, norm func(string) string) {
	for i, ev := range evs {
		if ev.Files == nil {
			continue
		}
		doc, ok := ev.Files[docURI]
		if !ok {
			continue
		}
		for id, ws := range walsOfAll(doc) {
			for _, w := range ws {
				if _, ok := ev.Files[norm(w)]; !ok {
					c.FailSig("wal-removed-before-retention-saved", "%s: after storage step %d (%s) the stored checkpoints file still lists checkpoint %d, whose write-ahead log %s is already gone: a crash or a failed save here leaves a checkpoint that cannot be read", what, i+1, rel(ev.Op), id, rel(w))
				}
			}
		}
	}
}

//go:noinline
func burst(db *dkv.DB, ref dkvh.Ref, tag string) {
	for i := 0; i < 3; i++ {
		k := keys[(i+len(tag))%len(keys)]
		db.Put([]byte(k), []byte(tag))
		ref[k] = tag
	}
	db.Delete([]byte(keys[3]))
	delete(ref, keys[3])
	db.WaitOnTasks()
}

//go:noinline
func reopen(o dkvh.Options, fs *dkvh.FS, h recovery.CheckpointHandle) *dkv.DB {
	db := dkv.Open(o.DBOptions(fs), []recovery.CheckpointHandle{h})
	db.WaitOnTasks()
	return db
}

//go:noinline
func checkLive(c *mc.Ctx, l *live, i int) {
	func() {
		defer func() {
			if r := recover(); r != nil {
				txt, ok := dkvh.PanicText(r)
				if !ok {
					panic(r)
				}
				c.FailSig("live-read-panics", "live database %d (%s): read panics: %s", i, l.dir, txt)
			}
		}()
		dkvh.CheckReads(c, fmt.Sprintf("live database %d (%s)", i, l.dir), l.db, l.ref, keys, prefixes)
	}()
}

var execSeq int

// rel strips the per-execution directory prefix from rendered text.
func rel(s string) string { return xdir.ReplaceAllString(s, "") }

var xdir = regexp.MustCompile(`/x\d+`)

func single(c *mc.Ctx) {
	p := c.Param.(params)
	old := debug.SetGCPercent(-1)
	defer debug.SetGCPercent(old)
	o := p.cfgs[c.Choose(len(p.cfgs))]
	c.Op("[%s]", o)
	dkvh.Tune(o)
	defer shim.SetLocal(nil)
	// every execution gets its own directory tree: table file names are process-wide keys in
	// dkv/sst's bookkeeping and must not collide with uncollected objects of earlier executions
	execSeq++
	base := fmt.Sprintf("/x%d", execSeq)
	root := dkvh.NewFS()
	dirN := 0
	// lives: the last one is the live database (read-checked); earlier ones are superseded
	// database objects that are merely kept reachable (their Table objects are not garbage)
	lives := []*live{{db: dkv.Open(o.DBOptions(root.WithWorkingDir(base+"/w0")), nil), ref: dkvh.Ref{}, dir: base + "/w0"}}
	cur := func() *live { return lives[len(lives)-1] }
	var retained []handle
	var droppedWALs []string
	nextID := uint64(1)
	cleanupDeletes := 0
	var deleted []string

	final := false
	verify := func(after string) {
		if !c.Fresh() {
			root.TakeLog()
			return
		}
		for _, ev := range root.TakeLog() {
			if strings.HasPrefix(ev.Op, "cleanup-delete") {
				cleanupDeletes++
				deleted = append(deleted, rel(strings.TrimPrefix(ev.Op, "cleanup-delete ")))
			}
		}
		files := root.Snapshot()
		for _, h := range retained {
			doc, ok := files[h.h.URI]
			if !ok {
				c.FailSig("checkpoint-file-missing", "after %s: the checkpoints file %s of retained checkpoint %d is gone", after, rel(h.h.URI), h.id)
			}
			wals, tables, found := filesOf(doc, h.id)
			if !found {
				c.FailSig("checkpoint-not-in-doc", "after %s: retained checkpoint %d is not in its checkpoints file %s", after, h.id, rel(h.h.URI))
			}
			for _, u := range append(wals, tables...) {
				if _, ok := files[u]; !ok {
					c.FailSig("needed-file-deleted:"+kindOf(u), "after %s: %s, referenced by retained checkpoint %d, no longer exists (deleted so far: %s)", after, rel(u), h.id, rel(fmt.Sprint(deleted)))
				}
			}
			// scratch restore on a copy of the files, deleting nothing. Only at the end of the
			// execution: probe Table objects share URIs with the live ones and would take part
			// in the process-wide bookkeeping of table files while they are uncollected.
			if final {
				func() {
					defer func() {
						if r := recover(); r != nil {
							txt, ok := dkvh.PanicText(r)
							if !ok {
								panic(r)
							}
							c.FailSig("restore-panics", "after %s: restore of retained checkpoint %d panics: %s", after, h.id, txt)
						}
					}()
					saved := dkv.VerifFreshQueues()
					defer dkv.VerifRestoreQueues(saved)
					opts := o.DBOptions(dkvh.MemFSFrom(files).WithWorkingDir(base + "/probe"))
					opts.DataOwnership = sharedOwnership{}
					pdb := dkv.Open(opts, []recovery.CheckpointHandle{h.h})
					pdb.WaitOnTasks()
					dkvh.CheckReads(c, fmt.Sprintf("after %s: restore of retained checkpoint %d", after, h.id), pdb, h.ref, keys, prefixes)
				}()
			}
		}
		checkLive(c, cur(), len(lives)-1)
		for _, w := range droppedWALs {
			if _, ok := files[w]; ok {
				c.FailSig("wal-not-removed", "after %s: WAL %s is referenced only by dropped checkpoints but still exists after the retention update was saved", after, w)
			}
		}
		var ids []uint64
		for _, h := range retained {
			ids = append(ids, h.id)
		}
		var names []string
		for n := range files {
			names = append(names, n)
		}
		sort.Strings(names)
		if cleanupDeletes > 0 {
			c.Nontrivial(rel(fmt.Sprint(names, ids, len(lives))))
		}
	}

	for step := 0; step < p.depth; step++ {
		op := c.Choose(10)
		switch op {
		case 0:
			step = p.depth
			continue
		case 1:
			c.Op("burst")
			burst(cur().db, cur().ref, fmt.Sprintf("s%d", step))
			verify("a write burst")
		case 2:
			id := nextID
			nextID++
			c.Op("Checkpoint(%d)", id)
			captured := cur().ref.Clone()
			h, err := cur().db.Checkpoint(id)()
			if err != nil {
				c.Failf("Checkpoint(%d): %v", id, err)
			}
			retained = append(retained, handle{id, h, captured, cur().dir})
			verify(fmt.Sprintf("Checkpoint(%d)", id))
		case 3, 4:
			keep := op - 2
			if len(retained) <= keep {
				continue
			}
			// WALs referenced only by the dropped checkpoints must disappear
			files := root.Snapshot()
			keepW := map[string]bool{}
			for _, h := range retained[len(retained)-keep:] {
				w, _, _ := filesOf(files[h.h.URI], h.id)
				for _, u := range w {
					keepW[u] = true
				}
			}
			for _, h := range retained[:len(retained)-keep] {
				w, _, _ := filesOf(files[h.h.URI], h.id)
				for _, u := range w {
					if !keepW[u] && h.dir == cur().dir {
						droppedWALs = append(droppedWALs, u)
					}
				}
			}
			retained = retained[len(retained)-keep:]
			var ids []uint64
			for _, h := range retained {
				ids = append(ids, h.id)
			}
			c.Op("Retain%v", ids)
			docURI := "" // the checkpoints file of the live database's own directory
			for _, h := range retained {
				if h.dir == cur().dir {
					docURI = h.h.URI
				}
			}
			root.Record(true)
			err := cur().db.UpdateRetainedCheckpoints(ids)
			root.Record(false)
			if err != nil {
				c.Failf("UpdateRetainedCheckpoints(%v): %v", ids, err)
			}
			if c.Fresh() && docURI != "" {
				checkRetentionOrder(c, root.PeekLog(), docURI, fmt.Sprintf("Retain%v", ids), func(u string) string { return u })
			}
			verify(fmt.Sprintf("Retain%v", ids))
		case 5, 6, 7, 8:
			// reopen from the newest retained handle: 5 same dir/drop old, 6 same dir/keep old,
			// 7 new dir/drop old, 8 new dir/keep old
			if len(retained) == 0 {
				continue
			}
			h := retained[len(retained)-1]
			sameDir, dropOld := op <= 6, op%2 == 1
			dir := h.dir
			if !sameDir {
				dirN++
				dir = fmt.Sprintf("%s/w%d", base, dirN)
			}
			c.Op("Reopen(%d, dir=%s, old database %s)", h.id, strings.TrimPrefix(dir, base), map[bool]string{true: "dropped", false: "kept alive"}[dropOld])
			var ndb *dkv.DB
			func() {
				defer func() {
					if r := recover(); r != nil {
						txt, ok := dkvh.PanicText(r)
						if !ok {
							panic(r)
						}
						c.FailSig("restore-panics", "reopen from retained checkpoint %d panics: %s", h.id, txt)
					}
				}()
				ndb = reopen(o, root.WithWorkingDir(dir), h.h)
			}()
			nl := &live{db: ndb, ref: h.ref.Clone(), dir: dir}
			if dropOld {
				lives = []*live{nl}
			} else {
				lives = append(lives, nl)
				if len(lives) > 2 {
					lives = lives[len(lives)-2:]
				}
			}
			// the job retains only the checkpoint it restored from
			h.dir = dir
			retained = []handle{h}
			droppedWALs = nil
			verify("the reopen")
		case 9:
			c.Op("GC")
			gcBarrier(1)
			verify("garbage collection")
		}
	}
	c.Op("GC(final)")
	gcBarrier(2)
	final = true
	verify("final garbage collection")
	if cleanupDeletes > 0 {
		c.Note("executions_with_cleanup_deletions")
	}
	runtime.KeepAlive(lives)
}

func kindOf(uri string) string {
	if strings.HasSuffix(uri, ".wal") {
		return "wal"
	}
	return "sst"
}

var _ = kv.ErrNotFound
