package c09

import (
	"context"
	"errors"
	"fmt"
	"strings"
	"time"

	"reduction.dev/reduction/partitioning"
	"reduction.dev/reduction/proto"
	"reduction.dev/reduction/workers/operator"
	"verif.local/mc/harness/schedh"
	"verif.local/mc/mc"
	"verif.local/mc/shim"
)

// Ownership part (scheduler): the real OperatorPartition.ExclusivelyOwnsTable - the guard a
// table's cleanup consults before it deletes a file shared after a rescale - with one to three
// neighbours, every combination of neighbour behaviour and every interleaving of the
// goroutines that ask them. The file may be deleted (true, nil) only if every neighbour whose
// key groups overlap the table has answered that it does not need it.

const (
	nbNotNeeded = iota
	nbNeeded
	nbError
	nbSlowError // answers with an error after a virtual second, or when the call is cancelled
	nbSlowNotNeeded
	nbNoOverlap // its key groups do not overlap the table: it is not asked
	nbModes
)

var nbModeName = []string{"does not need it", "needs it", "errors", "errors late", "does not need it (late)", "no overlap"}

type ownNb struct {
	proto.UnimplementedOperator
	mode     int
	asked    int
	answered bool // returned (false, nil)
}

func (n *ownNb) NeedsTable(ctx context.Context, uri string) (bool, error) {
	shim.Point("rpc:NeedsTable")
	n.asked++
	switch n.mode {
	case nbNeeded:
		return true, nil
	case nbError:
		return false, errors.New("neighbour unreachable")
	case nbSlowError, nbSlowNotNeeded:
		t := shim.NewTimer(time.Second)
		switch shim.Select(false, shim.RecvCase(ctx.Done()), shim.RecvCase(t.C)) {
		case 0:
			return false, ctx.Err()
		}
		if n.mode == nbSlowError {
			return false, errors.New("neighbour timed out")
		}
	}
	n.answered = true
	return false, nil
}

func ownershipBody(c *mc.Ctx) {
	maxN := c.Param.(int)
	n := 1 + c.Choose(maxN)
	nbs := make([]*ownNb, n)
	var ranges []partitioning.KeyGroupRange
	var ops []proto.Operator
	var desc []string
	for i := range nbs {
		nbs[i] = &ownNb{mode: c.Choose(nbModes)}
		r := partitioning.KeyGroupRange{Start: 1 + i, End: 2 + i}
		if nbs[i].mode == nbNoOverlap {
			r = partitioning.KeyGroupRange{Start: 100 + i, End: 101 + i}
		}
		ranges = append(ranges, r)
		ops = append(ops, nbs[i])
		desc = append(desc, nbModeName[nbs[i].mode])
	}
	c.Op("[%d neighbours: %s]", n, strings.Join(desc, "; "))
	own := operator.VerifNewOperatorPartition(partitioning.KeyGroupRange{Start: 0, End: 1}, ranges, ops)
	// the table spans key groups 0..n: it reaches into every overlapping neighbour's range
	start, end := []byte{0, 0, 'a'}, []byte{0, byte(n), 'z'}
	var owns bool
	var err error
	returned := false
	schedh.Run(c, schedh.Opts{MaxSteps: 4000, MaxAdvances: 8, NoAdvanceAlt: true, SelectRotation: true}, func() {
		owns, err = own.ExclusivelyOwnsTable("memory:///t/000001.sst", start, end)
		returned = true
	})
	if !returned {
		return // the scheduler reports deadlocks and panics itself
	}
	c.Op("ExclusivelyOwnsTable = (%v, %v)", owns, err)
	mayDelete := owns && err == nil
	for i, nb := range nbs {
		switch {
		case nb.mode == nbNoOverlap:
			if nb.asked > 0 {
				c.FailSig("ownership-asked-non-overlapping", "neighbour %d does not overlap the table but was asked", i)
			}
		case mayDelete && nb.mode == nbNeeded:
			c.FailSig("ownership-ignores-needed", "the table may be deleted although neighbour %d answered that it needs it", i)
		case mayDelete && !nb.answered:
			c.FailSig("ownership-ignores-error", "the table may be deleted although neighbour %d (%s) never answered that it does not need it", i, nbModeName[nb.mode])
		}
	}
	allFree := true
	for _, nb := range nbs {
		if nb.mode != nbNoOverlap && nb.mode != nbNotNeeded && nb.mode != nbSlowNotNeeded {
			allFree = false
		}
	}
	if allFree && !mayDelete {
		c.FailSig("ownership-never-deletes", "every overlapping neighbour answered that it does not need the table, but the result is (%v, %v)", owns, err)
	}
	c.Outcome(fmt.Sprint(desc, mayDelete))
	c.Nontrivial(fmt.Sprint(desc, owns, err != nil))
}
