package c06

import "verif.local/mc/report"

// endToEnd registers the end-to-end rescaling parts (real operators): added below.
func endToEnd(k *report.Check) {}
