// Package c02: barrier alignment gives every operator checkpoint a consistent cut
// (DESIGN §5 C02). A real Operator under the cooperative scheduler.
package c02

import (
	"context"
	"encoding/binary"
	"fmt"
	"sort"
	"strings"
	"time"

	"reduction.dev/reduction/batching"
	"reduction.dev/reduction/clocks"
	"reduction.dev/reduction/connectors/embedded"
	"reduction.dev/reduction/dkv"
	"reduction.dev/reduction/dkv/recovery"
	"reduction.dev/reduction/dkv/storage"
	"reduction.dev/reduction/proto/jobpb"
	"reduction.dev/reduction/proto/workerpb"
	"reduction.dev/reduction/workers/operator"
	"verif.local/mc/harness/dkvh"
	"verif.local/mc/harness/oph"
	"verif.local/mc/harness/schedh"
	"verif.local/mc/mc"
	"verif.local/mc/report"
	"verif.local/mc/shim"
)

type params struct {
	senders int
	full    bool // enumerate the scripts of two-checkpoint runs too (otherwise one fixed script set)
	focused bool // one fixed script set for every checkpoint count (deeper schedule bound)
	ckpts   int  // when set: exactly this many consecutive checkpoints (fixed scripts)
	skip    bool // one sender (enumerated) never delivers barrier 1 and goes straight to barrier 2
}

func Run(k *report.Check) {
	k.Rule = "one real Operator (event batch size 1 or 2), R sender threads (source runners) that each play a script through HandleEvent sequentially; scripts enumerated: 0-2 keyed events before each barrier (keys collide across senders), 0-1 after, optional pre-barrier watermark, one timer-setting event, one or two consecutive checkpoints (separate parts: three, thorough also four, with fixed scripts); every schedule of the sender threads, the operator's event loop and the (slow) handler within the delay bound. A further part lets one sender (enumerated) skip barrier 1 and go straight to barrier 2: checkpoint 1 may never be reported, and checkpoint 2, if reported, must still be the cut at every sender's barrier 2 (senders may stay parked; the run is judged when nothing can run any more). For every OperatorCheckpointComplete(N): the events applied so far are exactly the events every sender delivered before its barrier N, no timer fired that only post-barrier watermarks justify and every registered timer that the senders' pre-barrier watermarks make due has fired (once), the DKV checkpoint reported for N (opened afterwards with a fresh database) holds exactly that state, no deadlock. non-trivial = distinct (scripts, schedule cost) executions in which a sender had passed its barrier while another sender's pre-barrier event was still to be applied"
	k.Assumptions = []string{"scheduling points at synchronisation operations (sequentially consistent)", "large memtable: the database's background work is C07/C08's subject"}
	k.Budget(120, 1200)
	k.Parts(k.Pick(5, 6))
	bound := k.Pick(1, 2)
	k.ExploreSched(fmt.Sprintf("align/all-scripts,senders=2,delays<=%d", bound), mc.Config{Bound: bound}, params{senders: 2, full: k.Thorough()}, body)
	k.ExploreSched(fmt.Sprintf("align/focused-scripts,senders=2,delays<=%d", bound+1), mc.Config{Bound: bound + 1}, params{senders: 2, focused: true}, body)
	// three and four checkpoints in a row on one deployment: the alignment bookkeeping is re-armed
	// after every checkpoint, and which sender's barrier arrives first may change from one to the next
	k.ExploreSched(fmt.Sprintf("align/three-checkpoints,senders=2,delays<=%d", bound), mc.Config{Bound: bound, Deadline: k.Within(0.5)}, params{senders: 2, focused: true, ckpts: 3}, body)
	// three senders: a barrier that is neither the first nor the last of its checkpoint exists
	k.ExploreSched(fmt.Sprintf("align/focused-scripts,senders=3,delays<=%d", bound+1), mc.Config{Bound: bound + 1}, params{senders: 3, focused: true}, body)
	// a runner that never delivers barrier 1 and goes on to barrier 2 (the job gave checkpoint 1 up for it)
	k.ExploreSched(fmt.Sprintf("align/skipped-barrier,senders=2,delays<=%d", bound+1), mc.Config{Bound: bound + 1, Deadline: k.Within(0.3)}, params{senders: 2, skip: true}, body)
	if k.Thorough() {
		k.ExploreSched("align/four-checkpoints,senders=2,delays<=2", mc.Config{Bound: 2, Deadline: k.Within(0.4)}, params{senders: 2, focused: true, ckpts: 4}, body)
	}
}

type step struct {
	kind byte // 'e' keyed event, 'w' watermark, 'b' barrier, 'f' foreign barrier
	key  string
	id   string
	n    uint64
	wm   int64
}

var execSeq int

// shared: the probe database never claims exclusive table ownership.
type shared struct{}

func (shared) OwnsKey([]byte) bool { return true }
func (shared) ExclusivelyOwnsTable(string, []byte, []byte) (bool, error) {
	return false, nil
}

func body(c *mc.Ctx) {
	p := c.Param.(params)
	batch := 1 + c.Choose(2)
	nCkpt := p.ckpts
	if nCkpt == 0 {
		nCkpt = 1 + c.Choose(2)
	}
	scripts := make([][]step, p.senders)
	preSet := make([]map[string]bool, nCkpt+1) // events delivered before barrier n (1-based), cumulative
	for n := range preSet {
		preSet[n] = map[string]bool{}
	}
	preWM := make([][]int64, nCkpt+1) // per checkpoint: last pre-barrier watermark per sender
	for n := range preWM {
		preWM[n] = make([]int64, p.senders)
	}
	// with a fixed number of checkpoints the scripts decide who is ahead: for every checkpoint one
	// sender (enumerated) has two events and a watermark in front of its barrier, the others none,
	// so that under the default schedule too the first barrier comes from a different sender
	lag := 0
	if p.ckpts > 0 {
		for n := 0; n < nCkpt; n++ {
			lag = lag*p.senders + c.Choose(p.senders)
		}
	}
	laggard := func(n int) int { // n is 1-based
		v := lag
		for i := nCkpt; i > n; i-- {
			v /= p.senders
		}
		return v % p.senders
	}
	var desc []string
	skipper := -1
	if p.skip {
		// checkpoint 1 was given up by the job for one runner (it never delivers barrier 1): it can
		// never complete, and checkpoint 2 still has to be the cut at everybody's barrier 2
		skipper = c.Choose(p.senders)
		nCkpt = 2
		preSet = []map[string]bool{{}, {}, {}}
		preWM = [][]int64{make([]int64, p.senders), make([]int64, p.senders), make([]int64, p.senders)}
		for r := 0; r < p.senders; r++ {
			ev := func(i int) step {
				return step{kind: 'e', key: []string{"a", "b"}[(r+i)%2], id: fmt.Sprintf("s%de%d", r, i)}
			}
			var sc []step
			if r == skipper {
				sc = []step{ev(0), {kind: 'b', n: 2}, ev(1)}
				preSet[2][sc[0].id] = true
			} else {
				sc = []step{ev(0), {kind: 'b', n: 1}, ev(1), {kind: 'b', n: 2}, ev(2)}
				preSet[2][sc[0].id], preSet[2][sc[2].id] = true, true
			}
			scripts[r] = sc
			var d []string
			for _, st := range sc {
				if st.kind == 'e' {
					d = append(d, st.id+"@"+st.key)
				} else {
					d = append(d, fmt.Sprintf("barrier(%d)", st.n))
				}
			}
			desc = append(desc, fmt.Sprintf("s%d: %s", r, strings.Join(d, " ")))
		}
	}
	for r := 0; r < p.senders && !p.skip; r++ {
		var sc []step
		ev := 0
		add := func() {
			key := []string{"a", "b"}[(r+ev)%2]
			id := fmt.Sprintf("s%de%d", r, ev)
			if r == 0 && ev == 0 {
				id = "T2:" + id // this event also sets a timer at t=2s
			}
			sc = append(sc, step{kind: 'e', key: key, id: id})
			ev++
		}
		var lastWM int64
		fixed := (nCkpt == 2 && !p.full) || p.focused
		for n := 1; n <= nCkpt; n++ {
			cnt := 1
			if !fixed {
				cnt = c.Choose(3)
			}
			withWM := fixed
			if p.ckpts > 0 {
				cnt, withWM = 0, false
				if laggard(n) == r {
					cnt, withWM = 2, true
				}
			}
			for i := 0; i < cnt; i++ {
				add()
			}
			if withWM || (!fixed && c.Choose(2) == 1) {
				lastWM = int64(3 * n)
				sc = append(sc, step{kind: 'w', wm: lastWM})
			}
			for _, s := range sc {
				if s.kind == 'e' {
					for m := n; m <= nCkpt; m++ {
						preSet[m][s.id] = true
					}
				}
			}
			for m := n; m <= nCkpt; m++ {
				preWM[m][r] = lastWM
			}
			sc = append(sc, step{kind: 'b', n: uint64(n)})
		}
		cnt := 1
		if !fixed {
			cnt = c.Choose(2)
		}
		for i := 0; i < cnt; i++ {
			add()
		}
		sc = append(sc, step{kind: 'w', wm: 9})
		scripts[r] = sc
		var d []string
		for _, s := range sc {
			switch s.kind {
			case 'e':
				d = append(d, s.id+"@"+s.key)
			case 'w':
				d = append(d, fmt.Sprintf("wm(%d)", s.wm))
			case 'b':
				d = append(d, fmt.Sprintf("barrier(%d)", s.n))
			case 'f':
				d = append(d, "barrier(77!)")
			}
		}
		desc = append(desc, fmt.Sprintf("s%d: %s", r, strings.Join(d, " ")))
	}
	c.Op("[batch=%d] %s", batch, strings.Join(desc, " | "))

	execSeq++
	base := fmt.Sprintf("/x%d", execSeq)
	root := dkvh.NewFS()
	storage.VerifRegisterFS("memory://"+base, func(loc string) storage.FileSystem {
		return root.WithWorkingDir(strings.TrimPrefix(loc, "memory://"))
	})
	defer storage.VerifRegisterFS("memory://"+base, nil)

	h := oph.NewHandler()
	h.Latency = func() { shim.Point("handler-latency") }
	job := oph.NewJob(h)
	id := "op"
	srIDs := make([]string, p.senders)
	for r := range srIDs {
		srIDs[r] = fmt.Sprintf("sr%d", r)
	}
	var foreignAccepted, scriptErrs []string
	passedBarrier := make([]uint64, p.senders) // highest barrier each sender has delivered
	aligned := false
	job.OnComplete = nil

	schedh.Run(c, schedh.Opts{MaxSteps: 6000, NoAdvanceAlt: true}, func() {
		ctx, cancel := context.WithCancel(context.Background())
		op := operator.NewOperator(operator.NewOperatorParams{ID: id, UserHandler: h, Job: job, Clock: clocks.NewFrozenClock(),
			EventBatching: batching.EventBatcherParams{MaxSize: batch}})
		started := make(chan struct{})
		shim.Go(func() { op.Start(ctx); shim.Close(started) })
		shim.Recv(job.Registered)
		if err := op.HandleDeploy(ctx, &workerpb.DeployOperatorRequest{Operators: []*jobpb.NodeIdentity{{Id: id}}, SourceRunnerIds: srIDs,
			KeyGroupCount: 4, StorageLocation: "memory://" + base}, &embedded.RecordingSink{}); err != nil {
			panic(fmt.Sprintf("mc: harness: deploy: %v", err))
		}
		done := make(chan struct{}, p.senders)
		for r := 0; r < p.senders; r++ {
			shim.Go(func() {
				for _, s := range scripts[r] {
					var err error
					switch s.kind {
					case 'e':
						err = op.HandleEvent(ctx, srIDs[r], oph.Keyed(s.key, s.id, 1))
					case 'w':
						err = op.HandleEvent(ctx, srIDs[r], oph.Watermark(s.wm))
					case 'b':
						err = op.HandleEvent(ctx, srIDs[r], oph.Barrier(s.n))
						passedBarrier[r] = s.n
					case 'f':
						if e := op.HandleEvent(ctx, srIDs[r], oph.Barrier(s.n)); e == nil {
							foreignAccepted = append(foreignAccepted, fmt.Sprintf("barrier(%d) from %s", s.n, srIDs[r]))
						}
					}
					if err != nil {
						scriptErrs = append(scriptErrs, fmt.Sprintf("%s: %c %s: %v", srIDs[r], s.kind, s.id, err))
					}
				}
				shim.Send(done, func() { done <- struct{}{} })
			})
		}
		if p.skip {
			// senders may stay parked for good (a checkpoint that cannot complete): virtual time
			// only moves on once nothing can run any more
			shim.Sleep(time.Second)
		} else {
			for r := 0; r < p.senders; r++ {
				shim.Recv(done)
			}
		}
		cancel()
		shim.Recv(started)
	})

	if len(h.Failures) > 0 {
		c.FailSig("handler-state", "handler saw wrong state: %s", strings.Join(h.Failures, "; "))
	}
	if p.skip {
		// a barrier that does not belong to the checkpoint being aligned may be refused
		kept := scriptErrs[:0]
		for _, e := range scriptErrs {
			if !strings.Contains(e, ": b ") {
				kept = append(kept, e)
			}
		}
		scriptErrs = kept
	}
	if len(scriptErrs) > 0 {
		c.FailSig("event-rejected", "operator rejected events: %s", strings.Join(scriptErrs, "; "))
	}
	if len(foreignAccepted) > 0 {
		c.FailSig("foreign-barrier-accepted", "a barrier with a foreign checkpoint id was accepted: %v", foreignAccepted)
	}
	if len(job.Completions) != nCkpt && !p.skip {
		c.FailSig("missing-checkpoint", "%d checkpoints completed, scripts contain %d barriers per sender", len(job.Completions), nCkpt)
	}
	for i, comp := range job.Completions {
		n := uint64(i + 1)
		if p.skip {
			n = comp.Req.CheckpointId
			if n != 2 {
				c.FailSig("checkpoint-without-every-barrier", "checkpoint %d was reported although sender %d never delivered its barrier", n, skipper)
			}
		}
		if comp.Req.CheckpointId != n {
			c.Failf("completion %d reports checkpoint id %d", i, comp.Req.CheckpointId)
		}
		applied := map[string]bool{}
		var timersFired []string
		for _, a := range h.Applied[:comp.AppliedCount] {
			if a.Timer {
				timersFired = append(timersFired, a.ID)
			} else {
				applied[a.ID] = true
			}
		}
		want := preSet[n]
		var missing, early []string
		for id := range want {
			if !applied[id] {
				missing = append(missing, id)
			}
		}
		for id := range applied {
			if !want[id] {
				early = append(early, id)
			}
		}
		sort.Strings(missing)
		sort.Strings(early)
		if len(missing) > 0 {
			c.FailSig("cut-misses-pre-barrier-event", "checkpoint %d was reported before pre-barrier events %v were applied", n, missing)
		}
		if len(early) > 0 {
			c.FailSig("cut-includes-post-barrier-event", "checkpoint %d was reported after post-barrier events %v had been applied", n, early)
		}
		minWM := preWM[n][0]
		for _, w := range preWM[n] {
			minWM = min(minWM, w)
		}
		for _, t := range timersFired {
			var secs int64
			fmt.Sscanf(t, "timer@%d", &secs)
			if secs > minWM {
				c.FailSig("timer-fired-on-post-barrier-watermark", "timer %s fired before checkpoint %d although the senders' pre-barrier watermarks only reach %d", t, n, minWM)
			}
		}
		// the converse: a timer that was registered (its event was applied while the handler was
		// told a watermark below the timer) and that the senders' pre-barrier watermarks make due
		// belongs to the cut - the operator's event loop is sequential, every pre-barrier
		// watermark is handled before its sender's barrier, and the last barrier flushes the batch
		for _, a := range h.Applied[:comp.AppliedCount] {
			var secs int64
			if a.Timer || !strings.HasPrefix(a.ID, "T") {
				continue
			}
			fmt.Sscanf(a.ID, "T%d:", &secs)
			if a.WM >= time.Unix(secs, 0).UnixNano() || secs > minWM {
				continue
			}
			fired := 0
			for _, t := range timersFired {
				if t == fmt.Sprintf("timer@%d", secs) {
					fired++
				}
			}
			if fired == 0 {
				c.FailSig("due-timer-not-in-the-cut", "checkpoint %d was reported although the timer at %ds set by %s (handler was told watermark %v) had not fired: every sender's pre-barrier watermark reaches %d", n, secs, a.ID, time.Unix(0, a.WM).UTC().Format("15:04:05"), minWM)
			}
			if fired > 1 {
				c.FailSig("timer-fired-twice", "the timer at %ds set by %s fired %d times before checkpoint %d", secs, a.ID, fired, n)
			}
		}
		// the reported DKV checkpoint, opened with a fresh database, holds exactly that state
		got := stateInCheckpoint(c, root, base, comp.Req.DkvFileUri, n)
		var gotIDs, wantIDs []string
		for id := range got {
			gotIDs = append(gotIDs, id)
		}
		for id := range want {
			wantIDs = append(wantIDs, id)
		}
		sort.Strings(gotIDs)
		sort.Strings(wantIDs)
		if strings.Join(gotIDs, ",") != strings.Join(wantIDs, ",") {
			c.FailSig("dkv-checkpoint-not-the-cut", "the DKV checkpoint reported for checkpoint %d holds events %v, the cut is %v", n, gotIDs, wantIDs)
		}
	}
	_ = aligned
	_ = passedBarrier
	interesting := false
	// a sender had passed barrier 1 while a pre-barrier event of another sender was applied later
	for _, a := range h.Applied {
		_ = a
	}
	if nCkpt >= 1 && len(job.Completions) > 0 && c.Used() > 0 {
		interesting = true
	}
	if interesting {
		c.Nontrivial(fmt.Sprint(desc, batch, c.Used(), len(h.Applied), h.Batches))
	}
	c.Outcome(fmt.Sprint(desc, batch, h.Batches))
}

// stateInCheckpoint opens the checkpoint with a fresh database and returns the event ids it holds.
func stateInCheckpoint(c *mc.Ctx, root *dkvh.FS, base, uri string, id uint64) map[string]bool {
	out := map[string]bool{}
	func() {
		defer func() {
			if r := recover(); r != nil {
				txt, ok := dkvh.PanicText(r)
				if !ok {
					panic(r)
				}
				c.FailSig("restore-panics", "opening the DKV checkpoint reported for checkpoint %d panics: %s", id, txt)
			}
		}()
		db := dkv.Open(dkv.DBOptions{FileSystem: root.WithWorkingDir(base + "/probe"), DataOwnership: shared{}, MemTableSize: 1 << 20}, []recovery.CheckpointHandle{{CheckpointID: id, URI: uri}})
		var err error
		for e := range db.ScanPrefix(nil, &err) {
			k := e.Key()
			if len(k) < 7 || k[2] != 0x00 {
				continue // timers and other schemas
			}
			l := binary.BigEndian.Uint32(k[3:7])
			rest := k[7+l:]
			nsLen := int(rest[0])
			out[string(rest[1+nsLen:])] = true
		}
		if err != nil {
			c.Failf("scan of restored checkpoint %d: %v", id, err)
		}
	}()
	return out
}
