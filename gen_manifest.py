#!/usr/bin/env python3
"""Regenerates MANIFEST.json from the table below (kept in one place so that it stays valid)."""
import json

ALL = ["C%02d" % i for i in range(1, 21)]

# id -> (level, technique, level text, level note, design ref)
CHECKS = {
 "C01": ("exploration", "deviation-bounded exhaustive exploration of network delivery orders, checkpoint-tick positions and worker-kill points in a cluster simulation of the real Job, Operators and SourceRunners (components run the default schedule under the cooperative scheduler); exactly-once oracle inside the handler and on the state read back from the DKV checkpoints",
         "scenarios of 1-2 splits / 5-10 records over colliding keys, 1-2 workers, read size, batch size, tick positions and acknowledgement order enumerated; every run with at most one deviation (thorough: two) among: a queued RPC delivered out of order, one worker killed at any network event, all workers killed at once; after a kill fresh workers register and the job redeploys from its latest completed checkpoint; no record applied twice, none lost, final state = failure-free fold; a focused part queues the job's snapshot file writes as events (completing last by default) with one more deviation, so that kills and redeployments fall between the last acknowledgement and the publication of a checkpoint",
         "interleavings inside components are not re-explored here; a known finding (a surviving worker that is redeployed) masks the runs in which one of two workers survives", "DESIGN.md §5 C01"),
 "C02": ("exploration", "delay-bounded exhaustive schedule exploration of a real Operator under a cooperative scheduler (testing/synctest bubble), scripts enumerated, cut oracle evaluated at every OperatorCheckpointComplete",
         "two (thorough: also three) sender threads playing enumerated scripts of events / watermarks / barriers for one or two consecutive checkpoints (and, with the laggard before each barrier enumerated, three - thorough four - checkpoints) against a real Operator with a slow handler; every schedule within 1 delay for all scripts and 2 delays for a focused script set (thorough: 2 and 3): the events applied at the report of checkpoint N are exactly the pre-barrier events, no timer fires on post-barrier watermarks only, the reported DKV checkpoint restores to exactly the cut, no deadlock",
         "scheduling points at synchronisation operations; delay bound; large memtable (no background flush in this harness)", "DESIGN.md §5 C02"),
 "C03": ("exploration", "bounded exhaustive mutation-sequence enumeration on the real KeyedStateStore over a real dkv.DB (background work held or quiescent as an enumerated action) vs a shadow map, plus exhaustive script enumeration against a real Operator (batching, checkpoint, redeploy from the checkpoint) with a handler that compares the state it is supplied with a shadow of its own mutations",
         "every sequence of put/delete mutations up to depth 4-5 over prefix-related subject keys, namespaces and entry keys incl. empty ones, tiny DKV thresholds; GetState of every subject key after every mutation equals the shadow map[subject][namespace][entry]; no foreign, duplicated or resurrected entries; operator tier: every script up to depth 4-5 over events whose handler result puts/deletes colliding entries of keys a/ab, batch time-out, checkpoint+redeploy, batch sizes 1-3",
         "operator tier runs the default schedule (interleavings are C02's subject); namespaces < 256 bytes", "DESIGN.md §5 C03"),
 "C04": ("exploration", "delay-bounded exhaustive schedule exploration of a real SourceRunner (reader loop, ReorderFetcher, per-operator batching, timers on virtual time) under a cooperative scheduler; stream oracle with the harness's own hash",
         "scenarios of 1-2 splits / 3-5 records x read size x operator count x batch size x time-out x barrier position, every schedule within 1 delay (all configurations) and 2 delays (focused configurations); thorough one more each: every keyed event exactly once at the owning operator, same-split same-key order, consistent cuts by barriers and watermarks, completeness after 450 ms of virtual time",
         "scheduling points at synchronisation operations; runs judged after a virtual-time horizon because end of input does not end the run in this code base", "DESIGN.md §5 C04"),
 "C05": ("exploration", "exhaustive enumeration of configurations (key-group counts x operator counts) and of a stated key set on the real KeySpace / OperatorPartition / KeyedStateStore / TimerStore vs an independent MurmurHash3-32 reference",
         "every g<=256 x every n<=g+3 (thorough: g<=2048 x 16 characteristic n and 160 large g up to 65535): ranges contiguous, disjoint, covering, balanced; RangeIndex and partition ownership agree with the range table; KeyGroup = reference murmur3 mod g for every key of length <=2 and 29k longer keys; persisted prefixes of state and timer entries equal it; the source runner's real router delivers one key per key group to the owning operator for g in {1..40,255,256,257,1000} x n<=9",
         "'every key' and 'every g with every n' are bounded as stated; reference anchored by published test vectors", "DESIGN.md §5 C05"),
 "C06": ("exploration", "exhaustive enumeration of configurations and orders on the real AssignRanges vs range intersection; bounded exhaustive history enumeration through real dkv databases, KeyedStateStores and TimerStores rescaled with the real AssignRanges and OperatorPartition",
         "(a) every g<=9 (thorough 12), M,N<=g+2 and every recorded order of the old checkpoints (all permutations for M<=5): each new operator is handed exactly the old checkpoints whose range intersects its own. (b) every history up to depth 3-4 of state puts/deletes, timer set/fire on M old operators (tiny memtables), checkpoint, restore into N operators in every recorded order, an update after the restore, flush and compaction: owners see exactly the shadow state, drained timers are exactly the unfired ones of the operator's key groups; a second part rescales twice; a third runs put/delete histories of depth 6-7 with ballast entries, so that the old operators' tables are compacted down the levels before a scale-in",
         "operator counts up to 4 and 4 key groups in the end-to-end tier; what a non-owner would read for a foreign key is not judged (never asked)", "DESIGN.md §5 C06"),
 "C07": ("exploration", "bounded exhaustive history enumeration on the real dkv.DB (background flush/compaction held, quiescent, or with the creation of one table file held back, as enumerated actions) vs a map; delay-bounded schedule exploration of designated histories under the cooperative scheduler",
         "every put/delete history up to depth 5-6 over colliding keys under ten tiny option sets; background work completed or held back at every step; Get of every key and ScanPrefix of every prefix after every write, compared with a map; values incl. empty ones; one-table-held tier: the n-th table file creation held back so that a flush lands inside a compaction step; schedule tier: four colliding histories, every schedule within 1-2 delays",
         "single writer; MemoryFilesystem", "DESIGN.md §5 C07"),
 "C18": ("model_checking", "explicit-state breadth-first search over level layouts produced by the real LevelList/Compactor, states cloned and canonicalised, invariants on every transition",
         "all level layouts reachable within the stated depth by flushes, Compact begin and Compact apply (flushes landing in between) under sixteen compactor settings (level lists of 3-6 levels); contents (Get/ScanPrefix) equal the reference after every step, sorted levels disjoint, no newer version beneath an older one, compaction reaches a fixed point from every state; on a real dkv.DB the creation of the n-th table file is held back so that a flush lands inside a compaction step",
         "depth-bounded; three keys, seven flush images, at most three level-0 tables; sequence numbers rank-normalised in the state key", "DESIGN.md §5 C18"),
 "C08": ("fault_enumeration", "bounded exhaustive history enumeration on the real dkv.DB x every crash point (snapshot of the file set after every mutating storage operation), restore of every retained handle on every snapshot vs the map captured at the Checkpoint call",
         "every history up to depth 5-6 over put/delete/Checkpoint/retention update/restore (same or new directory)/hold+release of background work; after every storage operation following the return of a handle, a fresh dkv.Open on a copy of the files must reproduce the captured map, not panic and accept new writes; a schedule part calls Checkpoint while flushes are in flight under the cooperative scheduler (every schedule within 1-2 delays); background work optionally held from the start, or a warm-up of two flushed entries before the history; every history ends with a quiescent final checkpoint probed the same way",
         "no torn writes (a completed storage operation is durable, an incomplete one invisible); GC-driven deletions are C09's subject; flush/compaction interleavings inside the quiescence wait are left to the Go scheduler in this tier", "DESIGN.md §5 C08"),
 "C09": ("exploration", "bounded exhaustive history enumeration on real dkv.DB instances with garbage collection as an explicit enumerated action (runtime.GC + cleanup barrier), file-existence oracle over retained checkpoint documents plus reads of the live level set",
         "single database: every history up to depth 5-6 over write burst / Checkpoint / retention update / reopen in the same process (old object dropped or kept, same or new directory) / forced GC; neighbours: rescale 1->N with the real OperatorPartition policy, simulated operator processes (own file names), every combination of neighbour answers (truthful / error / hang) and every order of bursts, job checkpoints (also ones that never complete job-wide), retention notifications and GC up to depth 4-6, with focused parts for an operator redeployed twice in one process and for a pending job checkpoint; the ownership guard ExclusivelyOwnsTable itself under the cooperative scheduler with 1-3 neighbours x six behaviours x every interleaving within 3-6 delays",
         "GC completeness depends on the collector finding the garbage (deletions that are reported are real); simulated processes share one Go heap; MemoryFilesystem", "DESIGN.md §5 C09"),
 "C10": ("exploration", "bounded exhaustive operation-sequence enumeration with state-key pruning on the real TimerRegistry/TimerStore over a real dkv.DB vs a set of pending timers",
         "every sequence up to depth 5-7 over SetTimer / AdvanceWatermark / checkpoint+restore with 1-2 upstreams, stamps on a seconds and on a nanoseconds scale and per-key-group cache capacities of 0,1,2,3,unlimited timers; each advance must deliver exactly the pending timers at or below the minimum upstream watermark, once, in order; final drain",
         "three subject keys in two key groups, four timestamps; explored by worker processes that share one table of expanded states and are replaced when the iterator coroutines leaked by the code under test fill their heap; non-decreasing upstream watermarks; large memtable (the database is C07/C08's subject)", "DESIGN.md §5 C10"),
 "C11": ("exploration", "delay-bounded exhaustive schedule exploration of a real SourceRunner (watermark values in the operator streams) + exhaustive merge-order enumeration against a real Operator (minimum over upstreams)",
         "source runner: as C04, the k-th watermark equal in all streams, non-decreasing, exactly one nanosecond below the largest forwarded timestamp (bounds when a stream has not received it yet); operator: 1-3 upstreams, every merge order of 4-5 messages (events, timer-setting events, watermarks): the watermark the handler is told and the timers that fire follow the minimum over upstreams, unreported = epoch",
         "non-decreasing watermarks per runner in the operator part", "DESIGN.md §5 C11"),
 "C12": ("model_checking", "explicit-state search (choice-sequence DFS with canonical state-key pruning) over the real snapshots.Store, every transition compared with a reference model; plus delay-bounded exhaustive schedule exploration of concurrent acknowledgements",
         "concurrent acknowledgements / duplicate / racing CreateCheckpoint on separate threads against the real Store (every schedule within 3-4 delays); all states of the real Store reachable within 14-24 events over CreateCheckpoint / CreateSavepoint / operator and source-runner acknowledgements (right, late, early ids; foreign senders; duplicates) / restart, for assemblies (1,1), (2,1), (2,2); in-memory state, CurrentCheckpoint, decoded snapshot files, savepoint files and retained notifications equal the model after every event",
         "publication goroutines awaited after every event (their interleavings and crash points are C13's subject); in-memory storage location", "DESIGN.md §5 C12"),
 "C13": ("fault_enumeration", "crash-point enumeration (file set after every storage operation, restart on a copy) over id ranges + delay-bounded exhaustive schedule exploration of overlapping publication goroutines of the real Store",
         "2-4 consecutive checkpoints from 95 start ids (0..70, around 2^6, 2^12, 2^16, 2^32), in memory and on the real LocalDirectory: after every storage operation a new Store loads the highest completely written checkpoint; every set of one to three completed snapshot files over a 53-id universe loads its highest id; three checkpoints created back to back with their publication goroutines interleaved in every way within 3-5 delays (also with one of them started by CreateSavepoint): Remove never targets the newest published checkpoint, retained notifications and CurrentCheckpoint never go back",
         "storage operations are atomic; scheduling points at synchronisation operations", "DESIGN.md §5 C13"),
 "C14": ("exploration", "exhaustive enumeration of savepoint request points, tick relations, worker counts and acknowledgement orders plus deviation-bounded delivery orders in a cluster simulation of the real Job, Operators and SourceRunners with one storage namespace; wipe-and-restore from the savepoint URI",
         "W in {1,2} workers, savepoint requested after 0/1/2/4/7 delivered event batches with the periodic tick absent / completed before / pending (fold), operator acknowledgements in either order, at most one (thorough: two) out-of-order RPC deliveries; then all working storage is deleted and a new job with W' in {1,2} fresh workers starts from the savepoint URI: one StartCheckpoint round per checkpoint id, the original job finishes undisturbed, the restored job never applies a record twice nor misses one and ends with the failure-free state; savepoint-chain part: tiny memtables (table files in the savepoints), the restored job takes a savepoint of its own (at once or after its input), another wipe, a third job",
         "in-memory storage namespace; component-internal interleavings not re-explored", "DESIGN.md §5 C14"),
 "C15": ("model_checking", "explicit-state search (choice-sequence DFS with canonical state-key pruning) over the real jobs.Job with scripted nodes under the cooperative scheduler (run to quiescence after every event), invariants on every call the job makes, bounded-liveness suffix from every state",
         "all job states reachable within 5-7 events over register / deregister / heartbeat / clock jump / checkpoint tick / acknowledgement / failing Deploy / slow deployments (Deploy calls stay in flight until released), WorkerCount 1 and 2 (the latter from an assembled cluster) with one standby node of each kind: calls only reach registered live nodes, deploys name exactly WorkerCount nodes, no call reaches an assembly after the job noticed a lost member, redeploys carry the latest completed checkpoint; from every state 'register all, tick, acknowledge' completes a checkpoint with a larger id",
         "scripted nodes (real workers: cluster parts, being added); a node counts as lost once it deregistered or its heartbeat had expired when the job evaluated its registry", "DESIGN.md §5 C15"),
 "C16": ("exploration", "delay-bounded exhaustive schedule exploration of a real SourceRunner (reported split positions vs the barrier cut) + exhaustive enumeration of splitter configurations and kinesis shard histories against the real splitters",
         "source runner: as C04 with a barrier racing the reads: reported positions put every record emitted before the barrier below and every later record at or above them; embedded/httpapi splitters for every split count <=5 x runner count <=4; the embedded reader's value sequences, checkpoint cursors and resume from them; real kinesis SourceSplitter against the repository's kinesis fake (in-process transport, discovery ticker on virtual time): the real kinesis SourceReader of a runner owning both shards of a stream: every history up to depth 6-8 over put into a shard / ReadEvents / checkpoint + a new reader resuming from it: each emitted record is the next of its shard in the reader's lineage; splitter: every history up to depth 6-7 over split / merge / discovery tick / reader finishes shard / checkpoint+restore, then readers finish every closed shard until nothing changes (every shard handed out): a shard handed out once per incarnation, never before its parents finished, with its checkpointed cursor, restore neither panics nor forgets",
         "records without keyed events are invisible to the cut oracle; kinesis shard expiry not modelled", "DESIGN.md §5 C16"),
 "C17": ("exploration", "bounded exhaustive input/history enumeration on the real SST and WAL code vs reference lists",
         "every run of 0..50 entries from a 56-key universe (binary, empty, prefix-related keys; tombstone masks exhaustive up to 8 entries), whole and split at every target size, every lookup key / prefix, descriptor JSON round trip; every WAL history over put/delete/cut/truncate/rotate+save up to depth 6-7 with every legal start marker",
         "bounded sizes and alphabet; MemoryFilesystem stands for all file systems", "DESIGN.md §5 C17"),
 "C19": ("exploration", "bounded exhaustive operation-sequence enumeration on the real structures vs sorted-slice reference models",
         "every operation sequence up to depth 4-9 per structure over a colliding key alphabet, zip-tree ranks enumerated, against sorted-slice reference models (partitioned queue also with 4-5 partitions; the lazily sorted map with observation as an operation of its own); exhaustive within the bound",
         "bounded depth and alphabet; comparison functions assumed total orders; Go runtime trusted", "DESIGN.md §5 C19"),
 "C20": ("exploration", "bounded exhaustive sequence enumeration (event batcher) + delay-bounded exhaustive schedule exploration of the real ReorderFetcher under a cooperative scheduler on virtual time",
         "event batcher: every sequence up to depth 9-11 over Add/IsFull/Flush(current)/timer expiry/Flush(issued tokens) for MaxSize 1-3, with and without time-out, timer expiry and the run of its callback as separate events; reorder fetcher: producer, fetches of arbitrary latency, time-out flusher and consumer threads, every schedule within 2-3 delays for 3-4 items, producer pauses and one failing / empty fetch enumerated: one result per input of every successful fetch, in order, errors reported, no deadlock",
         "scheduling points at synchronisation operations only (sequentially consistent; unsynchronised accesses are not interleaved); delay bound", "DESIGN.md §5 C20"),
}

NOT_YET = "check not built yet in this round (planned, see DESIGN.md §5)"

def main():
    checks = []
    for pid in sorted(CHECKS):
        level, tech, text, note, ref = CHECKS[pid]
        checks.append({
            "property_id": pid,
            "quick_cmd": "./check %s quick" % pid,
            "thorough_cmd": "./check %s thorough" % pid,
            "evidence_file": "evidence/%s.json" % pid,
            "replay_cmd_template": "./check %s --replay {path}" % pid,
            "engine": "mc",
            "level_claimed": {"category": level, "text": text, "design_ref": ref},
            "level_note": note,
            "technique": tech,
        })
    m = {
        "version": 1,
        "setup_cmd": "./setup.sh",
        "hooks": {
            "guard": "verif-overlay (go build -overlay; no file in /repo is changed by hooks)",
            "enable": "./check regenerates protobuf code (tools/pbgen) and instrumentation (tools/instr) from /repo's working tree into /verif/.build and compiles the check binary with `go build -overlay`; without the overlay the repository is byte-for-byte what git has",
            "baseline_off_cmd": "./baseline.sh",
            "source_commits": [],
            "add_only": True,
        },
        "engines": [{
            "name": "mc", "path": "mc/", "serves_properties": sorted(CHECKS),
            "kind_free_text": "hand-written deviation-bounded exhaustive explorer over the real Go code (choice-sequence DFS, state-key pruning, cooperative scheduler on testing/synctest for schedule exploration); no model other than boring reference oracles",
        }],
        "checks": checks,
        "not_applicable": [{"property_id": p, "reason": NOT_YET} for p in ALL if p not in CHECKS],
        "notes": open("MANIFEST.notes.txt").read() if __import__("os").path.exists("MANIFEST.notes.txt") else "",
    }
    json.dump(m, open("MANIFEST.json", "w"), indent=1)
    print("MANIFEST.json: %d checks, %d not claimed" % (len(checks), len(m["not_applicable"])))

main()
