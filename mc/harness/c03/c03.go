// Package c03: keyed state behaves as a per-key map the handler fully controls (DESIGN §5 C03).
package c03

import (
	"fmt"
	"sort"
	"strings"

	"reduction.dev/reduction-protocol/handlerpb"
	"reduction.dev/reduction/dkv"
	"reduction.dev/reduction/partitioning"
	"reduction.dev/reduction/workers/operator"
	"verif.local/mc/harness/dkvh"
	"verif.local/mc/mc"
	"verif.local/mc/report"
	"verif.local/mc/shim"
)

var subjects = []string{"a", "a\xff", "a\x00", "", "ab"}
var namespaces = []string{"n", "nm", ""}
var entryKeys = []string{"", "k", "k\x00"}

type params struct {
	depth     int
	nsub, nns int
	cfgs      []dkvh.Options
	keyGroups int
	group     int // > 1: mutations are handed to ApplyMutations in groups of this size (one call per run of equal subject keys)
}

func Run(k *report.Check) {
	k.Rule = "operator tier (scheduler build, default schedule): a real Operator with event batch size 1 or 3 (t: 1-3; time-out 10 ms), 90-byte (t: also default) memtables, is fed every script up to the depth over {event whose handler result puts / deletes entry m of namespace n or the empty entry key of namespace nm (the two concatenate to the same bytes) (values distinct per step, sometimes empty) of key a or ab; the batch time-out passes; checkpoint at a barrier and a new operator deployed from it}; the handler answers with one key result per key or - as the repository's own handlers do - one per event; on every ProcessEventBatch the state supplied for each key must equal what the handler's own earlier mutations leave; every script ends with a checkpoint, a restore and three more events (key a, key ab, key a again: one batch when the batch size is 3). store tier: every sequence up to the depth of put/delete mutations over subject keys {a, aff, a00, \"\", ab} (prefixes of one another, empty), namespaces {n, nm, \"\"}, entry keys {\"\", k, k00}, values distinct per step and an empty value, applied through the real KeyedStateStore over a real dkv.DB with tiny thresholds (memtable of 2 entries, L0 trigger 1-2) and background flush/compaction completed or held back at every step; after every mutation GetState of every subject key is compared with a shadow map[subject][namespace][entry]. store-grouped part: the same over two subject keys with the mutations handed to ApplyMutations three at a time (one call per run of equal subject keys, grouped by namespace, entry keys k, j, k00 by position in the group), compared after every group. non-trivial = distinct (options, shadow contents) reached after an overwrite or delete of an entry that an older memtable or table still holds"
	k.Assumptions = []string{"namespaces shorter than 256 bytes (the store length-prefixes them with one byte)", "order of namespaces and entries within GetState is not part of the property; grouping is"}
	k.Budget(160, 1200)
	p := params{depth: k.Pick(4, 5), nsub: k.Pick(3, 4), nns: k.Pick(2, 3), keyGroups: 4,
		cfgs: []dkvh.Options{{Mem: 60, Table: 80, L0: 2, Smallest: 4500, Ampl: 50}, {Mem: 60, Table: 40, L0: 1, Smallest: 4500, Ampl: 50},
			{Mem: 60, Table: 80, L0: 1, Smallest: 9000, Ampl: 200}}} // minor compactions above a non-empty base level
	k.Parts(3)
	od := k.Pick(4, 5)
	k.ExploreSched(fmt.Sprintf("sched/operator/d=%d", od), mc.Config{Bound: 0, Deadline: k.Within(0.4), RecycleAfter: 1500}, oparams{depth: od, thorough: k.Thorough()}, operatorBody)
	// a handler result carries several mutations per key: groups of three go through one
	// ApplyMutations call per subject key (entry keys k, j, k00 by position in the group)
	g := p
	g.group, g.cfgs, g.nsub = 3, p.cfgs[:k.Pick(1, 3)], 2
	g.depth = k.Pick(5, 6)
	k.ExploreProc(fmt.Sprintf("store-grouped/d=%d", g.depth), mc.Config{Deadline: k.Within(0.3)}, g, storeBody)
	k.ExploreProc(fmt.Sprintf("store/d=%d", p.depth), mc.Config{}, p, storeBody)
}

type shadow map[string]map[string]map[string]string

func (s shadow) render(subject string) string {
	var nss []string
	for ns, es := range s[subject] {
		if len(es) == 0 {
			continue
		}
		var ents []string
		for k, v := range es {
			ents = append(ents, fmt.Sprintf("%q=%q", k, v))
		}
		sort.Strings(ents)
		nss = append(nss, fmt.Sprintf("%q{%s}", ns, strings.Join(ents, ",")))
	}
	sort.Strings(nss)
	return strings.Join(nss, " ")
}

func renderState(c *mc.Ctx, subject string, st []*handlerpb.StateEntryNamespace) string {
	seen := map[string]bool{}
	var nss []string
	for _, ns := range st {
		if seen[ns.Namespace] {
			c.FailSig("namespace-split", "GetState(%q) returns namespace %q in two groups", subject, ns.Namespace)
		}
		seen[ns.Namespace] = true
		var ents []string
		for _, e := range ns.Entries {
			ents = append(ents, fmt.Sprintf("%q=%q", e.Key, e.Value))
		}
		sort.Strings(ents)
		for i := 1; i < len(ents); i++ {
			if strings.SplitN(ents[i], "=", 2)[0] == strings.SplitN(ents[i-1], "=", 2)[0] {
				c.FailSig("entry-duplicate", "GetState(%q) returns entry %s twice in namespace %q", subject, ents[i], ns.Namespace)
			}
		}
		nss = append(nss, fmt.Sprintf("%q{%s}", ns.Namespace, strings.Join(ents, ",")))
	}
	sort.Strings(nss)
	return strings.Join(nss, " ")
}

func storeBody(c *mc.Ctx) {
	p := c.Param.(params)
	o := p.cfgs[c.Choose(len(p.cfgs))]
	c.Op("[%s]", o)
	dkvh.Tune(o)
	defer shim.SetLocal(nil)
	fs := dkvh.NewFS()
	defer fs.Hold(false)
	db := dkv.Open(o.DBOptions(fs), nil)
	ks := partitioning.NewKeySpace(p.keyGroups, 1)
	store := operator.NewKeyedStateStore(db, ks)
	sh := shadow{}
	subs, nss := subjects[:p.nsub], namespaces[:p.nns]
	held, shadowed := false, false
	touched := map[string]int{}
	sync := func(label string) {
		c.Op(label)
		fs.Hold(false)
		if err := db.WaitOnTasks(); err != nil {
			c.Failf("background task failed: %v", err)
		}
		held = false
	}
	checkAll := func(what string) {
		for _, s := range subs {
			st, err := store.GetState([]byte(s))
			if err != nil {
				c.Failf("%s: GetState(%q): %v", what, s, err)
			}
			if got, want := renderState(c, s, st), sh.render(s); got != want {
				sig := "state-mismatch"
				if len(got) > len(want) {
					sig = "state-foreign-or-resurrected"
				}
				c.FailSig(sig, "%s: GetState(%q) = [%s], the handler's mutations leave [%s]", what, s, got, want)
			}
		}
	}
	type pend struct {
		sub, ns string
		mut     *handlerpb.StateMutation
		apply   func() // the shadow's update
	}
	var pending []pend
	flush := func() {
		for len(pending) > 0 {
			n := 1
			for n < len(pending) && pending[n].sub == pending[0].sub {
				n++
			}
			var call []*handlerpb.StateMutationNamespace
			for _, pm := range pending[:n] {
				var nsm *handlerpb.StateMutationNamespace
				for _, m := range call {
					if m.Namespace == pm.ns {
						nsm = m
					}
				}
				if nsm == nil {
					nsm = &handlerpb.StateMutationNamespace{Namespace: pm.ns}
					call = append(call, nsm)
				}
				nsm.Mutations = append(nsm.Mutations, pm.mut)
				pm.apply()
			}
			if n > 1 {
				c.Op("ApplyMutations(%q: %d mutations)", pending[0].sub, n)
				c.Note("calls_with_several_mutations")
			}
			if err := store.ApplyMutations([]byte(pending[0].sub), call); err != nil {
				c.Failf("ApplyMutations: %v", err)
			}
			pending = pending[n:]
		}
	}
	nmut := len(subs) * len(nss) * 2 * 2 // entry keys {"" or k-ish} x {put,delete}
	for step := 0; step < p.depth; step++ {
		op := c.Choose(3 + nmut)
		switch {
		case op == 0:
			step = p.depth
			continue
		case op == 1:
			sync("sync")
		case op == 2:
			if held {
				continue
			}
			c.Op("hold")
			fs.Hold(true)
			held = true
			continue
		default:
			if held && dkvh.SealedMemtables(db) >= 4 {
				sync("sync(forced:queue)")
				fs.Hold(true)
				held = true
			}
			i := op - 3
			del := i%2 == 1
			i /= 2
			ek := entryKeys[(i%2)*(1+step%2)] // "" or, alternating by step, "k" / "k\x00"
			if p.group > 1 && i%2 == 1 {
				ek = []string{"k", "j", "k\x00"}[len(pending)%3]
			}
			i /= 2
			ns := nss[i%len(nss)]
			sub := subs[i/len(nss)]
			mut := &handlerpb.StateMutation{}
			var apply func()
			if del {
				c.Op("Delete(%q/%q/%q)", sub, ns, ek)
				mut.Mutation = &handlerpb.StateMutation_Delete{Delete: &handlerpb.DeleteMutation{Key: []byte(ek)}}
				apply = func() {
					if sh[sub] != nil && sh[sub][ns] != nil {
						delete(sh[sub][ns], ek)
					}
				}
			} else {
				val := fmt.Sprintf("v%d", step)
				if step%3 == 2 {
					val = "" // empty values are legal
				}
				c.Op("Put(%q/%q/%q=%q)", sub, ns, ek, val)
				mut.Mutation = &handlerpb.StateMutation_Put{Put: &handlerpb.PutMutation{Key: []byte(ek), Value: []byte(val)}}
				apply = func() {
					if sh[sub] == nil {
						sh[sub] = map[string]map[string]string{}
					}
					if sh[sub][ns] == nil {
						sh[sub][ns] = map[string]string{}
					}
					sh[sub][ns][ek] = val
				}
			}
			id := sub + "/" + ns + "/" + ek
			touched[id]++
			shadowed = shadowed || touched[id] > 1
			pending = append(pending, pend{sub, ns, mut, apply})
			if len(pending) < p.group {
				continue
			}
			flush()
			if !held {
				if err := db.WaitOnTasks(); err != nil {
					c.Failf("background task failed: %v", err)
				}
			}
		}
		if c.Fresh() {
			checkAll("live")
			lay := dkvh.NoteLayout(c, db)
			if shadowed {
				var all []string
				for _, s := range subs {
					all = append(all, sh.render(s))
				}
				c.Nontrivial(fmt.Sprint(o, lay, all))
			}
		}
	}
	flush()
	sync("sync(final)")
	checkAll("after final sync")
}
