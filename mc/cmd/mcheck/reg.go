package main

import (
	"verif.local/mc/harness/c19"
)

func init() {
	register("C19", "exploration", c19.Run)
}
