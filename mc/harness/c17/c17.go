// Package c17: SST tables and WAL files round-trip exactly (DESIGN §5 C17).
package c17

import (
	"bytes"
	"encoding/json"
	"fmt"
	"runtime"
	"slices"
	"sort"
	"strings"

	"reduction.dev/reduction/dkv/kv"
	"reduction.dev/reduction/dkv/sst"
	"reduction.dev/reduction/dkv/storage"
	"reduction.dev/reduction/dkv/wal"
	"verif.local/mc/mc"
	"verif.local/mc/report"
)

type ent struct {
	k, v []byte
	seq  uint64
	del  bool
}

func (e *ent) Key() []byte    { return e.k }
func (e *ent) Value() []byte  { return e.v }
func (e *ent) IsDelete() bool { return e.del }
func (e *ent) SeqNum() uint64 { return e.seq }

// universe: 56 sorted keys with empty, binary, >=0x80 and prefix-related members.
var universe = func() []string {
	ks := []string{"", "\x00", "\x00\x00", "\x00\xc8\x00x", "a", "a\x00", "aa", "ab", "ab\x00", "abc", "b", "ba", "\x7f", "\x80", "\x80\xff", "\xc3\x28", "\xff", "\xff\xff"}
	for i := 0; len(ks) < 56; i++ {
		ks = append(ks, fmt.Sprintf("k%02d", i))
	}
	sort.Strings(ks)
	return slices.Compact(ks)
}()

// probes: keys that are never stored: before first, between, after last.
var probes = []string{"\x00\x01", "a\x01", "aaa", "abb", "k", "k000", "kz", "\x7f\x01", "\xfe", "\xff\xff\xff"}
var scanPrefixes = []string{"", "\x00", "a", "ab", "abc", "b", "k", "k0", "k1", "k4", "\x80", "\xff", "z", "\xff\xff\xff"}

func Run(k *report.Check) {
	k.Rule = "tables: runs of n keys (n=0..50; the n/2 smallest and n/2 largest) of a 56-key universe (empty, binary, >=0x80, prefix-related keys), tombstone masks exhaustive for n<=8 and single/double beyond, written whole and split with every target size for runs <=12; every universe/probe key looked up, every prefix scanned, every table's recorded key range exactly [first key held, last key held], again after the descriptor's JSON round trip. WAL: every sequence over put/delete/cut/truncate/rotate+save up to the depth, every legal start marker. non-trivial = distinct (n, tombstone mask, target size) with n>=2, and distinct WAL histories containing a truncate or a second rotate"
	k.Assumptions = []string{"storage.MemoryFilesystem stands for the file systems; bytes outside the universe not explored", "a WAL start marker is legal when it is >= the largest truncation point and <= the last sequence number (how dkv.DB uses it)"}
	k.Budget(120, 1200)
	k.Parts(4)
	k.Explore("table/whole", mc.Config{}, nil, tableWhole)
	k.Explore("table/split", mc.Config{}, k.Pick(10, 12), tableSplit)
	k.Explore("table/bloom-fp", mc.Config{Workers: 1}, nil, bloomFP)
	k.Explore(fmt.Sprintf("wal/d=%d", k.Pick(6, 7)), mc.Config{}, k.Pick(6, 7), walBody)
}

// pickOrder takes the universe alternately from both ends, so that a run of n keys holds the
// n/2 smallest and the n/2 largest keys (empty key, 00.., ..ff, ffff): short runs too contain
// keys and prefixes at both extremes of the byte order.
var pickOrder = func() []int {
	var o []int
	for lo, hi := 0, len(universe)-1; lo <= hi; lo, hi = lo+1, hi-1 {
		o = append(o, lo)
		if hi != lo {
			o = append(o, hi)
		}
	}
	return o
}()

func mkRun(n int, mask uint64) []*ent {
	var es []*ent
	idx := slices.Clone(pickOrder[:n])
	slices.Sort(idx)
	for i, ui := range idx {
		e := &ent{k: []byte(universe[ui]), seq: uint64(100 + (i*7)%13)}
		if mask&(1<<uint(i)) != 0 {
			e.del = true
		} else if i%3 == 0 {
			e.v = []byte{}
		} else {
			e.v = []byte(fmt.Sprintf("v%d\x00\xff", i))
		}
		es = append(es, e)
	}
	return es
}

func seqOf(es []*ent) func(func(kv.Entry) bool) {
	return func(yield func(kv.Entry) bool) {
		for _, e := range es {
			if !yield(e) {
				return
			}
		}
	}
}

func entStr(e kv.Entry) string {
	if e == nil {
		return "<nil>"
	}
	if e.IsDelete() {
		return fmt.Sprintf("%q#%d:DEL", e.Key(), e.SeqNum())
	}
	return fmt.Sprintf("%q#%d=%q", e.Key(), e.SeqNum(), e.Value())
}

// verifyTables checks lookups and scans over tables that together hold exactly es.
func verifyTables(c *mc.Ctx, what string, tables []*sst.Table, es []*ent) {
	// the recorded key range of a table is exactly [first key held, last key held]: lookups are
	// routed by it (LevelList.Get, ownership checks), so a key outside it is as good as lost
	for i, t := range tables {
		var err error
		var firstKey, lastKey []byte
		cnt := 0
		for e := range t.ScanPrefix(nil, &err) {
			if cnt == 0 {
				firstKey = slices.Clone(e.Key())
			}
			lastKey = slices.Clone(e.Key())
			cnt++
			if !t.RangeContainsKey(e.Key()) {
				c.FailSig("table-range-excludes-held-key", "%s: table %d holds key %q but its recorded range [%q,%q] does not contain it", what, i, e.Key(), t.Document().StartKey, t.Document().EndKey)
			}
		}
		if err != nil {
			c.Failf("%s: scan of table %d: %v", what, i, err)
		}
		if cnt == 0 {
			continue
		}
		doc := t.Document()
		if !bytes.Equal([]byte(doc.StartKey), firstKey) || !bytes.Equal([]byte(doc.EndKey), lastKey) {
			c.FailSig("table-range-not-its-contents", "%s: table %d records the key range [%q,%q], it holds [%q..%q]", what, i, doc.StartKey, doc.EndKey, firstKey, lastKey)
		}
	}
	find := func(key string) kv.Entry {
		var found kv.Entry
		for _, t := range tables {
			e, err := t.Get([]byte(key))
			if err == kv.ErrNotFound {
				continue
			}
			if err != nil {
				c.Failf("%s: Get(%q) error %v", what, key, err)
			}
			if found != nil {
				c.Failf("%s: key %q found in two split tables", what, key)
			}
			found = e
		}
		return found
	}
	byKey := map[string]*ent{}
	for _, e := range es {
		byKey[string(e.k)] = e
	}
	for _, key := range append(slices.Clone(universe), probes...) {
		got := find(key)
		want := byKey[key]
		if (got == nil) != (want == nil) {
			c.Failf("%s: Get(%q) = %s, want present=%v", what, key, entStr(got), want != nil)
		}
		if want != nil && (got.IsDelete() != want.del || got.SeqNum() != want.seq || !bytes.Equal(got.Key(), want.k) || (!want.del && !bytes.Equal(got.Value(), want.v))) {
			c.Failf("%s: Get(%q) = %s, want %s", what, key, entStr(got), entStr(want))
		}
	}
	for _, p := range scanPrefixes {
		var want []string
		for _, e := range es {
			if strings.HasPrefix(string(e.k), p) {
				want = append(want, entStr(e))
			}
		}
		var got []string
		for _, t := range tables {
			var err error
			for e := range t.ScanPrefix([]byte(p), &err) {
				got = append(got, entStr(e))
			}
			if err != nil {
				c.Failf("%s: ScanPrefix(%q) error %v", what, p, err)
			}
		}
		if !slices.Equal(got, want) {
			c.Failf("%s: ScanPrefix(%q) = %v, want %v", what, p, got, want)
		}
	}
}

// sharedOwnership never claims a table exclusively, so collecting a reopened table object
// deletes nothing (file lifetime is C09's subject, not this check's).
type sharedOwnership struct{}

func (sharedOwnership) OwnsKey([]byte) bool { return true }
func (sharedOwnership) ExclusivelyOwnsTable(string, []byte, []byte) (bool, error) {
	return false, nil
}

func reopen(c *mc.Ctx, fs storage.FileSystem, tables []*sst.Table) []*sst.Table {
	var out []*sst.Table
	for _, t := range tables {
		data, err := json.Marshal(t.Document())
		if err != nil {
			c.Failf("marshal table document: %v", err)
		}
		var doc sst.TableDocument
		if err := json.Unmarshal(data, &doc); err != nil {
			c.Failf("unmarshal table document: %v", err)
		}
		rt := sst.NewTableFromDocument(fs, sharedOwnership{}, doc)
		if rt.Document() != t.Document() {
			c.FailSig("table-descriptor-json", "table descriptor changed by its JSON round trip: %+q became %+q", t.Document(), rt.Document())
		}
		for _, key := range append(slices.Clone(universe), probes...) {
			if rt.RangeContainsKey([]byte(key)) != t.RangeContainsKey([]byte(key)) {
				c.FailSig("table-descriptor-json", "reopened table's key range differs for %q: [%q,%q] became [%q,%q]", key, t.Document().StartKey, t.Document().EndKey, rt.Document().StartKey, rt.Document().EndKey)
			}
		}
		out = append(out, rt)
	}
	return out
}

func chooseMask(c *mc.Ctx, n int) uint64 {
	if n <= 8 {
		return uint64(c.Choose(1 << n))
	}
	// none, every single, every adjacent/first-last double
	m := c.Choose(1 + n + n)
	switch {
	case m == 0:
		return 0
	case m <= n:
		return 1 << uint(m-1)
	default:
		i := m - n - 1
		return 1<<uint(i) | 1<<uint((i+1)%n)
	}
}

func tableWhole(c *mc.Ctx) {
	n := c.Choose(51)
	mask := chooseMask(c, n)
	es := mkRun(n, mask)
	c.Op("Write(n=%d,tombstones=%b)", n, mask)
	fs := storage.NewMemoryFilesystem()
	tw := sst.NewTableWriter(fs, 0)
	t, err := tw.Write(seqOf(es))
	if err != nil {
		c.Failf("Write: %v", err)
	}
	verifyTables(c, "written table", []*sst.Table{t}, es)
	verifyTables(c, "table reopened from its JSON descriptor", reopen(c, fs, []*sst.Table{t}), es)
	runtime.KeepAlive(t) // collecting the writer's table object deletes its file
	// lookups of keys outside the table's key range are made by the level list only when the
	// range says so; the table itself must still answer them (NotFound), checked above via probes.
	if n >= 2 {
		c.Nontrivial(fmt.Sprint(n, mask))
	}
}

func tableSplit(c *mc.Ctx) {
	maxN := c.Param.(int)
	n := c.Choose(maxN + 1)
	mask := chooseMask(c, n)
	es := mkRun(n, mask)
	total := 0
	for _, e := range es {
		total += int(sst.FlushSize(e))
	}
	target := 1 + c.Choose(total+1)
	c.Op("WriteRun(n=%d,tombstones=%b,target=%d of %d)", n, mask, target, total)
	fs := storage.NewMemoryFilesystem()
	tw := sst.NewTableWriter(fs, 0)
	tables, err := tw.WriteRun(seqOf(es), uint64(target))
	if err != nil {
		c.Failf("WriteRun: %v", err)
	}
	// disjoint, ordered key ranges; concatenation = input
	var prevEnd []byte
	first := true
	for i, t := range tables {
		doc := t.Document()
		if !first && bytes.Compare(prevEnd, []byte(doc.StartKey)) >= 0 {
			c.Failf("split table %d starts at %q, not after previous end %q", i, doc.StartKey, prevEnd)
		}
		if bytes.Compare([]byte(doc.StartKey), []byte(doc.EndKey)) > 0 {
			c.Failf("split table %d has start %q > end %q", i, doc.StartKey, doc.EndKey)
		}
		var err error
		cnt := 0
		for range t.ScanPrefix(nil, &err) {
			cnt++
		}
		if cnt == 0 && len(tables) > 1 {
			c.Failf("split produced an empty table %d of %d", i, len(tables))
		}
		if cnt > 0 {
			prevEnd, first = []byte(doc.EndKey), false
		}
	}
	verifyTables(c, "split tables", tables, es)
	verifyTables(c, "split tables reopened from JSON descriptors", reopen(c, fs, tables), es)
	runtime.KeepAlive(tables)
	if n >= 2 {
		c.Nontrivial(fmt.Sprint(n, mask, target))
	}
	if len(tables) > 1 {
		c.Note("runs_split_into_several_tables")
	}
}

// bloomFP: a large table (about a quarter of the bloom filter's bits set) and absent lookup
// keys, found by brute force, that the table's bloom filter does not reject: before the first
// key, between keys and after the last key. The lookup must report NotFound.
func bloomFP(c *mc.Ctx) {
	const n = 2000
	var es []*ent
	for i := 0; i < n; i++ {
		es = append(es, &ent{k: []byte(fmt.Sprintf("m%05d", i*2)), v: []byte("v"), seq: uint64(i + 1)})
	}
	fs := storage.NewMemoryFilesystem()
	t, err := sst.NewTableWriter(fs, 0).Write(seqOf(es))
	if err != nil {
		c.Failf("Write: %v", err)
	}
	// the filter is not exported: find false positives through Get itself on keys that are
	// certainly absent; a rejected key and a scanned-and-missed key both give NotFound, so
	// simply try many absent keys in each region (≈0.1% are false positives ⇒ thousands needed).
	regions := []struct {
		name string
		mk   func(i int) string
	}{
		{"before first", func(i int) string { return fmt.Sprintf("a%06d", i) }},
		{"between", func(i int) string { return fmt.Sprintf("m%05d", (i%n)*2+1) + fmt.Sprint(i/n) }},
		{"after last", func(i int) string { return fmt.Sprintf("z%06d", i) }},
	}
	r := regions[c.Choose(len(regions))]
	c.Op("2000-entry table, 6000 absent lookups %s", r.name)
	for i := 0; i < 6000; i++ {
		key := r.mk(i)
		e, err := t.Get([]byte(key))
		if err != kv.ErrNotFound {
			c.Failf("Get(%q) (absent, %s) = %s, %v; want NotFound", key, r.name, entStr(e), err)
		}
	}
	for i := 0; i < n; i += 37 {
		e, err := t.Get(es[i].k)
		if err != nil || !bytes.Equal(e.Value(), es[i].v) {
			c.Failf("Get(%q) present = %s, %v", es[i].k, entStr(e), err)
		}
	}
	runtime.KeepAlive(t)
	c.Nontrivial(r.name)
}

// ---------------------------------------------------------------- WAL

type walOp struct {
	seq uint64
	key string
	val string
	del bool
}

func walBody(c *mc.Ctx) {
	depth := c.Param.(int)
	fs := storage.NewMemoryFilesystem()
	w := wal.NewWriter(fs, 0, 1<<20)
	var ops []walOp   // everything appended so far
	var cuts []uint64 // sequence numbers at cut boundaries
	var trunc uint64  // largest truncation point
	var seq uint64    // last sequence number
	var sinceCut bool // entries appended since the last cut
	rotations, truncs := 0, 0
	verify := func(saved *wal.Writer) {
		for after := trunc; after <= seq; after++ {
			h := saved.Handle(after)
			var got []walOp
			for e, err := range wal.NewReader(fs, h).All() {
				if err != nil {
					c.Failf("Reader(after=%d).All error: %v", after, err)
				}
				o := walOp{key: string(e.K), val: string(e.V), del: e.Deleted}
				got = append(got, o)
			}
			var want []walOp
			for _, o := range ops {
				if o.seq > after {
					want = append(want, walOp{key: o.key, val: o.val, del: o.del})
				}
			}
			if !slices.Equal(got, want) {
				c.FailSig("wal-replay", "WAL %s read after seq %d yields %v, want %v", h.Name(), after, got, want)
			}
		}
	}
	for step := 0; step < depth; step++ {
		op := c.Choose(6)
		switch op {
		case 0:
			step = depth
		case 1, 2:
			seq++
			key := []string{"a", "b\xff"}[op-1]
			val := fmt.Sprintf("v%d", seq)
			c.Op("Put(%q)#%d", key, seq)
			w.Put([]byte(key), []byte(val), seq)
			ops = append(ops, walOp{seq, key, val, false})
			sinceCut = true
		case 3:
			seq++
			c.Op("Delete(a)#%d", seq)
			w.Delete([]byte("a"), seq)
			ops = append(ops, walOp{seq, "a", "", true})
			sinceCut = true
		case 4:
			if !sinceCut {
				continue // the DB cuts only after a write filled the memtable
			}
			c.Op("Cut@%d", seq)
			w.Cut()
			cuts = append(cuts, seq)
			sinceCut = false
			// optionally the flush of everything cut so far completes: Truncate(boundary)
			legal := 0
			for _, b := range cuts {
				if b > trunc {
					legal++
				}
			}
			_ = legal
		case 5:
			c.Op("Rotate+Save")
			old := w
			w = w.Rotate(fs)
			if err := old.Save(); err != nil {
				c.Failf("Save: %v", err)
			}
			rotations++
			verify(old)
		}
		// a pending flush may complete after any step: Truncate at a cut boundary not yet applied
		var pending []uint64
		for _, b := range cuts {
			if b > trunc {
				pending = append(pending, b)
			}
		}
		if len(pending) > 0 && step < depth {
			if t := c.Choose(len(pending) + 1); t > 0 {
				trunc = pending[t-1]
				c.Op("Truncate(%d)", trunc)
				w.Truncate(trunc)
				truncs++
			}
		}
	}
	// final: rotate+save and verify whatever remains
	c.Op("Rotate+Save(final)")
	old := w
	w = w.Rotate(fs)
	if err := old.Save(); err != nil {
		c.Failf("Save: %v", err)
	}
	verify(old)
	if truncs > 0 || rotations > 0 {
		c.Nontrivial(strings.Join(c.Ops(), " "))
	}
}
