// Package c05: key routing agrees with state ownership for every configuration (DESIGN §5 C05).
package c05

import (
	"encoding/binary"
	"fmt"
	"math/bits"
	"time"

	"reduction.dev/reduction-protocol/handlerpb"
	"reduction.dev/reduction/dkv"
	"reduction.dev/reduction/dkv/storage"
	"reduction.dev/reduction/partitioning"
	"reduction.dev/reduction/proto"
	"reduction.dev/reduction/util/murmur"
	"reduction.dev/reduction/workers/operator"
	"reduction.dev/reduction/workers/sourcerunner"
	"verif.local/mc/mc"
	"verif.local/mc/report"
)

// refMurmur3 is an independent MurmurHash3_x86_32 (Appleby's reference algorithm).
func refMurmur3(data []byte, seed uint32) uint32 {
	const c1, c2 = 0xcc9e2d51, 0x1b873593
	h := seed
	n := len(data) / 4
	for i := 0; i < n; i++ {
		k := binary.LittleEndian.Uint32(data[i*4:])
		k *= c1
		k = bits.RotateLeft32(k, 15)
		k *= c2
		h ^= k
		h = bits.RotateLeft32(h, 13)
		h = h*5 + 0xe6546b64
	}
	tail := data[n*4:]
	var k uint32
	for i := len(tail) - 1; i >= 0; i-- {
		k = k<<8 | uint32(tail[i])
	}
	if len(tail) > 0 {
		k *= c1
		k = bits.RotateLeft32(k, 15)
		k *= c2
		h ^= k
	}
	h ^= uint32(len(data))
	h ^= h >> 16
	h *= 0x85ebca6b
	h ^= h >> 13
	h *= 0xc2b2ae35
	h ^= h >> 16
	return h
}

// published MurmurHash3_x86_32 vectors (seed 0) anchoring the reference itself
var vectors = map[string]uint32{
	"":              0,
	"a":             0x3c2569b2,
	"abc":           0xb3dd93fa,
	"Hello, world!": 0xc0363e43,
	"The quick brown fox jumps over the lazy dog": 0x2e4ff723,
}

var allKeys = func() [][]byte {
	var ks [][]byte
	ks = append(ks, []byte{})
	for a := 0; a < 256; a++ {
		ks = append(ks, []byte{byte(a)})
	}
	for a := 0; a < 256; a++ {
		for b := 0; b < 256; b++ {
			ks = append(ks, []byte{byte(a), byte(b)})
		}
	}
	alpha := []byte{0x00, 'k', 0xff}
	for l := 3; l <= 9; l++ {
		n := 1
		for i := 0; i < l; i++ {
			n *= 3
		}
		for v := 0; v < n; v++ {
			k := make([]byte, l)
			x := v
			for i := range k {
				k[i] = alpha[x%3]
				x /= 3
			}
			ks = append(ks, k)
		}
	}
	return ks
}()

var refHash = func() []uint32 {
	h := make([]uint32, len(allKeys))
	for i, k := range allKeys {
		h[i] = refMurmur3(k, 0)
	}
	return h
}()

type gparams struct{ gs []int }

func Run(k *report.Check) {
	k.Rule = "configurations: every key-group count g in the stated set x operator counts n (quick: all g<=256 x all n<=g+3; thorough: all g<=2048 x 16 characteristic n, plus 160 large g up to 65535): ranges contiguous, disjoint, cover [0,g), sizes differ by at most one, RangeIndex of every group = the range containing it, and the real OperatorPartition owns exactly the groups of its range. Keys: every byte string of length <=2 and every string of length 3..9 over {00,'k',ff} (every murmur tail length and block count): KeyGroup = reference MurmurHash3-32(seed 0) mod g (reference anchored by published vectors), and the two-byte prefix that the real KeyedStateStore and TimerStore persist in a real dkv.DB equals it. Router: the source runner's real operatorCluster.routeEvent with one key per key group for g in {1..40,255,256,257,1000} x n<=min(g+2,9) delivers to the operator whose range contains the group. non-trivial = distinct (g,n) with n not dividing g or n>g, and distinct keys of length >=3"
	k.Assumptions = []string{"'every key byte string' and 'every g up to 65535 with every n' are not enumerable; the stated sets are the claim", "in-situ routing (which operator's handler receives a key) is asserted by C04's oracle with the same reference function"}
	k.Budget(100, 900)
	k.Parts(5)
	k.Explore("murmur-vectors", mc.Config{Workers: 1}, nil, vectorsBody)
	var gs []int
	if k.Thorough() {
		for g := 1; g <= 2048; g++ {
			gs = append(gs, g)
		}
		for _, b := range []int{4096, 8192, 10000, 16384, 32768, 40000, 50000, 60000, 65535} {
			for d := -8; d <= 8; d++ {
				if g := b + d; g >= 1 && g <= 65535 {
					gs = append(gs, g)
				}
			}
		}
	} else {
		for g := 1; g <= 256; g++ {
			gs = append(gs, g)
		}
		gs = append(gs, 257, 1000, 4096, 65535)
	}
	k.Explore("ranges", mc.Config{}, gparams{gs}, rangesBody)
	k.Explore("keygroup", mc.Config{}, gparams{gs}, keyGroupBody)
	k.Explore("source-runner-router", mc.Config{}, nil, routerBody)
	k.Explore("persisted-prefix", mc.Config{}, nil, prefixBody)
}

func vectorsBody(c *mc.Ctx) {
	for s, want := range vectors {
		if got := refMurmur3([]byte(s), 0); got != want {
			panic(fmt.Sprintf("mc: reference murmur3 is wrong for %q: %08x want %08x", s, got, want))
		}
		if got := murmur.Hash([]byte(s), 0); got != want {
			c.FailSig("murmur", "murmur.Hash(%q,0) = %08x, published MurmurHash3_x86_32 value is %08x", s, got, want)
		}
	}
	for i, k := range allKeys {
		if got := murmur.Hash(k, 0); got != refHash[i] {
			c.FailSig("murmur", "murmur.Hash(%x,0) = %08x, reference %08x", k, got, refHash[i])
		}
	}
	c.Op("%d published vectors, %d keys", len(vectors), len(allKeys))
	c.Nontrivial("vectors")
	c.Nontrivial("keys")
}

func nsFor(g int, thorough bool) []int {
	if g <= 256 && !thorough {
		ns := make([]int, 0, g+3)
		for n := 1; n <= g+3; n++ {
			ns = append(ns, n)
		}
		return ns
	}
	seen := map[int]bool{}
	var ns []int
	for _, n := range []int{1, 2, 3, 5, 7, 8, 16, 63, 64, 255, 256, 257, g - 1, g, g + 1, 2*g + 1} {
		if n >= 1 && !seen[n] {
			seen[n] = true
			ns = append(ns, n)
		}
	}
	return ns
}

func rangesBody(c *mc.Ctx) {
	p := c.Param.(gparams)
	g := p.gs[c.Choose(len(p.gs))]
	ns := nsFor(g, len(p.gs) > 1000)
	n := ns[c.Choose(len(ns))]
	c.Op("g=%d n=%d", g, n)
	ks := partitioning.NewKeySpace(g, n)
	rs := ks.KeyGroupRanges()
	if len(rs) != n {
		c.Failf("g=%d n=%d: %d ranges", g, n, len(rs))
	}
	next, minSize, maxSize := 0, g+1, -1
	for i, r := range rs {
		if r.Start != next || r.End < r.Start {
			c.FailSig("ranges-not-contiguous", "g=%d n=%d: range %d is %v, expected to start at %d", g, n, i, r, next)
		}
		next = r.End
		minSize, maxSize = min(minSize, r.Size()), max(maxSize, r.Size())
	}
	if next != g {
		c.FailSig("ranges-not-covering", "g=%d n=%d: ranges end at %d", g, n, next)
	}
	if maxSize-minSize > 1 {
		c.FailSig("ranges-unbalanced", "g=%d n=%d: range sizes between %d and %d", g, n, minSize, maxSize)
	}
	// ownership of every group: exactly one range, and the real operator partition agrees
	var parts []interface{ OwnsKey([]byte) bool }
	if n <= 16 {
		for i := range rs {
			parts = append(parts, operator.VerifNewOperatorPartition(rs[i], nil, []proto.Operator{}))
		}
	}
	for kg := 0; kg < g; kg++ {
		owner := -1
		for i, r := range rs {
			if r.IncludesKeyGroup(partitioning.KeyGroup(kg)) {
				if owner >= 0 {
					c.FailSig("ranges-overlap", "g=%d n=%d: group %d is in ranges %d and %d", g, n, kg, owner, i)
				}
				owner = i
			}
			if n > 64 && r.Start > kg {
				break
			}
		}
		if owner < 0 {
			c.FailSig("ranges-not-covering", "g=%d n=%d: group %d is in no range", g, n, kg)
		}
		prefix := []byte{byte(kg >> 8), byte(kg), 0x00, 'x'}
		for i, pt := range parts {
			if pt.OwnsKey(prefix) != (i == owner) {
				c.FailSig("partition-ownership", "g=%d n=%d: operator %d OwnsKey(group %d) = %v, the group belongs to range %d", g, n, i, kg, pt.OwnsKey(prefix), owner)
			}
		}
	}
	if g%n != 0 || n > g {
		c.Nontrivial(fmt.Sprint(g, n))
	}
}

func keyGroupBody(c *mc.Ctx) {
	p := c.Param.(gparams)
	g := p.gs[c.Choose(len(p.gs))]
	ns := []int{1, 3, g}
	n := ns[c.Choose(len(ns))]
	c.Op("g=%d n=%d, %d keys", g, n, len(allKeys))
	ks := partitioning.NewKeySpace(g, n)
	rs := ks.KeyGroupRanges()
	stride := 1
	if g > 300 {
		stride = 7 // large g: every 7th key (all lengths still covered)
	}
	for i := 0; i < len(allKeys); i += stride {
		key := allKeys[i]
		want := refHash[i] % uint32(g)
		if got := uint32(ks.KeyGroup(key)); got != want {
			c.FailSig("keygroup", "g=%d: KeyGroup(%x) = %d, MurmurHash3-32(seed 0) mod g = %d", g, key, got, want)
		}
		ri := ks.RangeIndex(key)
		if ri < 0 || ri >= len(rs) || !rs[ri].IncludesKeyGroup(partitioning.KeyGroup(want)) {
			c.FailSig("rangeindex", "g=%d n=%d: RangeIndex(%x) = %d, but group %d is not in range %v", g, n, key, ri, want, rs[min(max(ri, 0), len(rs)-1)])
		}
	}
	c.Nontrivial(fmt.Sprint(g, n))
}

// prefixBody: what the real stores persist for a key carries the key's group as prefix.
func prefixBody(c *mc.Ctx) {
	gs := []int{1, 2, 7, 256, 65535}
	g := gs[c.Choose(len(gs))]
	chunk := c.Choose(16)
	c.Op("g=%d keys chunk %d/16", g, chunk)
	ks := partitioning.NewKeySpace(g, 1)
	db := dkv.Open(dkv.DBOptions{FileSystem: storage.NewMemoryFilesystem(), MemTableSize: 1 << 30}, nil)
	st := operator.NewKeyedStateStore(db, ks)
	ts := operator.NewTimerStore(db, ks, partitioning.KeyGroupRange{Start: 0, End: g}, 1<<30)
	want := map[string]uint32{}
	for i := chunk; i < len(allKeys); i += 16 * 5 {
		key := allKeys[i]
		if err := st.ApplyMutations(key, []*handlerpb.StateMutationNamespace{{Namespace: "n", Mutations: []*handlerpb.StateMutation{{Mutation: &handlerpb.StateMutation_Put{Put: &handlerpb.PutMutation{Key: []byte("e"), Value: []byte("v")}}}}}}); err != nil {
			c.Failf("ApplyMutations: %v", err)
		}
		ts.Put(key, time.Unix(5, 0))
		want[string(key)] = refHash[i] % uint32(g)
	}
	var err error
	n := 0
	for e := range db.ScanPrefix(nil, &err) {
		k := e.Key()
		if len(k) < 3 {
			c.Failf("persisted key %x is shorter than group prefix + schema byte", k)
		}
		prefix := uint32(binary.BigEndian.Uint16(k[:2]))
		var subject []byte
		switch k[2] {
		case 0x00:
			l := binary.BigEndian.Uint32(k[3:7])
			subject = k[7 : 7+l]
		case 0x01:
			subject = k[11:]
		default:
			c.Failf("persisted key %x has unknown schema byte", k)
		}
		w, ok := want[string(subject)]
		if !ok {
			c.Failf("persisted key %x decodes to subject %x that was never written", k, subject)
		}
		if prefix != w {
			c.FailSig("persisted-prefix", "g=%d: entry of subject key %x is stored under group prefix %d, the key's group is %d", g, subject, prefix, w)
		}
		n++
	}
	if err != nil {
		c.Failf("scan: %v", err)
	}
	if n != 2*len(want) {
		c.Failf("g=%d: %d persisted entries for %d subject keys (state + timer each)", g, n, len(want))
	}
	c.Nontrivial(fmt.Sprint(g, chunk))
}

// routerBody: the source runner's real router (operatorCluster.routeEvent over real batching
// operators, recording operators behind them) must hand a key to the operator whose key-group
// range - as the operators themselves compute it at deploy (KeySpace.KeyGroupRanges) and as the
// harness's own arithmetic has it - contains the key's group: one key per key group, for
// g in {1..40, 255, 256, 257, 1000} and every operator count up to min(g+2, 9).
var routerGs = func() []int {
	var gs []int
	for g := 1; g <= 40; g++ {
		gs = append(gs, g)
	}
	return append(gs, 255, 256, 257, 1000)
}()

// keyPerGroup finds, for every key group of a g-group key space, a key that falls into it.
func keyPerGroup(g int) [][]byte {
	out := make([][]byte, g)
	found := 0
	for i := 0; found < g; i++ {
		k := []byte(fmt.Sprintf("r%d", i))
		kg := int(refMurmur3(k, 0) % uint32(g))
		if out[kg] == nil {
			out[kg] = k
			found++
		}
	}
	return out
}

func routerBody(c *mc.Ctx) {
	g := routerGs[c.Choose(len(routerGs))]
	n := 1 + c.Choose(min(g+2, 9))
	c.Op("g=%d n=%d", g, n)
	r := sourcerunner.VerifNewRouter(g, n)
	defer r.Close()
	deployed := partitioning.NewKeySpace(g, n).KeyGroupRanges()
	for kg, key := range keyPerGroup(g) {
		got := r.Route(key)
		want := refOwner(kg, g, n)
		if got != want {
			c.FailSig("router-misroutes", "g=%d n=%d: key %q (group %d) is routed to operator %d, its group belongs to operator %d", g, n, key, kg, got, want)
		}
		if !deployed[got].IncludesKeyGroup(partitioning.KeyGroup(kg)) {
			c.FailSig("router-disagrees-with-operator-range", "g=%d n=%d: key %q (group %d) is routed to operator %d, whose deployed range is %v", g, n, key, kg, got, deployed[got])
		}
	}
	if g%n != 0 {
		c.Nontrivial(fmt.Sprint("route", g, n))
	}
}

// refOwner: ranges of size floor(g/n), the first g mod n ranges one larger (the harness's own
// arithmetic for "sizes differ by at most one, larger ranges first").
func refOwner(kg, g, n int) int {
	base, extra := g/n, g%n
	start := 0
	for i := 0; i < n; i++ {
		size := base
		if i < extra {
			size++
		}
		if kg < start+size {
			return i
		}
		start += size
	}
	return n - 1
}
