// Package c15: the job runs only on a full, live assembly and checkpointing resumes
// (DESIGN §5 C15). Explicit-state search over the real jobs.Job with scripted nodes.
package c15

import (
	"context"
	"fmt"
	"slices"
	"sort"
	"strings"
	"time"

	"reduction.dev/reduction/config"
	"reduction.dev/reduction/connectors"
	"reduction.dev/reduction/jobs"
	"reduction.dev/reduction/proto"
	"reduction.dev/reduction/proto/jobpb"
	"reduction.dev/reduction/proto/snapshotpb"
	"verif.local/mc/harness/jobh"
	"verif.local/mc/harness/schedh"
	"verif.local/mc/mc"
	"verif.local/mc/report"
	"verif.local/mc/shim"
)

type params struct {
	depth   int
	workers int
	rehold  bool // deployments can become slow again after they finished
	prereg  bool // WorkerCount operators and source runners register before the enumerated events
	beats   bool // events are only: heartbeat of a node, the clock moving on by 2 s (less than half the deadline), checkpoint tick
}

const deadline = 5 * time.Second

func Run(k *report.Check) {
	k.Rule = "explicit-state search over the real jobs.Job with scripted operator / source-runner nodes, a harness clock and an in-memory store: events = register / deregister / heartbeat of operator i or source runner i (i<WorkerCount+1, so one standby of each kind), clock jump past the heartbeat deadline (a separate part: only heartbeats, clock steps of 2 s - less than half the deadline - and checkpoint ticks on a running assembly, to depth 8-14), checkpoint tick, acknowledgement of the pending checkpoint by a node, a node failing its next Deploy, Deploy calls becoming slow (they stay in flight, so that every other event can strike during deployment) and finishing; the job runs to quiescence after every event. Invariants on every call the job makes: Deploy / StartCheckpoint / AssignSplits only reach nodes that are registered and alive, every Deploy names exactly WorkerCount operators and runners, after a member is lost no further call reaches that assembly, a redeploy hands every operator the latest completed checkpoint. Bounded liveness from every reached state: register enough nodes, tick, acknowledge -> a new checkpoint with a larger id completes. non-trivial = distinct states reached after at least one loss of an assembly member"
	k.Assumptions = []string{"nodes are scripted (real workers are the cluster parts' subject)", "job goroutines run to quiescence after every event with the default schedule"}
	k.Budget(120, 1200)
	k.Parts(k.Pick(4, 5))
	// heartbeats in small time steps on a running assembly: a member that stops heartbeating must
	// be noticed although the others keep the registry busy
	for _, w := range []int{1, 2} {
		d := k.Pick(10, 14)
		if w == 2 {
			d = k.Pick(8, 11)
		}
		k.ExploreSched(fmt.Sprintf("job/heartbeats,workers=%d,d=%d", w, d), mc.Config{Bound: 0}, params{depth: d, workers: w, prereg: true, beats: true}, body)
	}
	for _, w := range []int{1, 2}[:k.Pick(2, 2)] {
		d := k.Pick(4, 7)
		if w == 2 {
			d = k.Pick(3, 6)
		}
		if w == 1 || k.Pick(0, 1) == 1 {
			k.ExploreSched(fmt.Sprintf("job/workers=%d,d=%d", w, d), mc.Config{Bound: 0}, params{depth: d, workers: w, rehold: k.Pick(0, 1) == 1}, body)
		}
		if w == 2 {
			d = k.Pick(3, 5)
			k.ExploreSched(fmt.Sprintf("job/workers=2,assembled,d=%d", d), mc.Config{Bound: 0}, params{depth: d, workers: w, rehold: k.Pick(0, 1) == 1, prereg: true}, body)
		}
	}
}

type world struct {
	c       *mc.Ctx
	p       params
	job     *jobs.Job
	clock   *jobh.Clock
	net     *jobh.Net
	loc     *jobh.MemLoc
	src     *jobh.FakeSource
	hb      map[string]time.Time // last registration per node (model of liveness)
	purged  map[string]bool
	reg     map[string]bool // registered and not deregistered
	seen    int             // calls already judged
	pending uint64          // checkpoint id announced by the last StartCheckpoint, 0 = none
	acked   map[string]bool
	asmOps  []string // members of the assembly of the last deploy
	asmSRs  []string
	lost    bool // a member of the current assembly was lost since its deploy
	lostM   map[string]bool
	gen     map[string]int  // processes started in a node slot so far - 1
	down    map[string]bool // the slot's process deregistered
	finish  bool            // the deployment that was in flight when the member was lost is just completing
	losses  int
	done    uint64 // latest completed checkpoint (model)
	errs    []string
}

// alive is the job's justified view: a node is lost once it deregistered, or once its heartbeat
// had expired at a moment the job evaluated its registry (every register / deregister event).
func (w *world) alive(id string) bool { return w.reg[id] && !w.purged[id] }

// evaluate mirrors the purge the job performs when it evaluates the cluster.
func (w *world) evaluate() {
	for id := range w.reg {
		if w.reg[id] && w.hb[id].Before(w.clock.Now().Add(-deadline)) {
			w.purged[id] = true
		}
	}
}

func (w *world) failf(format string, a ...any) {
	w.errs = append(w.errs, fmt.Sprintf(format, a...))
}

func (w *world) quiesce() { shim.Sleep(time.Millisecond) }

// judge examines the calls the job made since the last event.
func (w *world) judge(after string) {
	for _, call := range w.net.Calls[w.seen:] {
		switch call.Kind {
		case "deploy-op", "deploy-sr":
			if call.Kind == "deploy-op" {
				if len(call.Ops) != w.p.workers || len(call.SRs) != w.p.workers {
					w.failf("after %s: Deploy to %s names %d operators and %d source runners, WorkerCount is %d", after, call.Target, len(call.Ops), len(call.SRs), w.p.workers)
				}
				// a redeploy hands over the latest completed checkpoint
				var want []uint64
				if w.done > 0 {
					want = []uint64{w.done}
				}
				got := slices.Clone(call.Ckpts)
				got = slices.Compact(got)
				if fmt.Sprint(got) != fmt.Sprint(want) {
					w.failf("after %s: operator %s is deployed from checkpoints %v, the latest completed checkpoint is %v", after, call.Target, call.Ckpts, want)
				}
				w.asmOps, w.asmSRs = call.Ops, call.SRs
				w.lost, w.lostM = false, map[string]bool{}
				w.pending, w.acked = 0, map[string]bool{}
			} else if len(call.Ops) != w.p.workers {
				w.failf("after %s: Deploy to %s names %d operators, WorkerCount is %d", after, call.Target, len(call.Ops), w.p.workers)
			}
			if !w.alive(call.Target) {
				w.failf("after %s: Deploy sent to %s, which is not registered and alive", after, call.Target)
			}
			for _, m := range append(slices.Clone(call.Ops), call.SRs...) {
				if !w.alive(m) {
					w.failf("after %s: Deploy to %s names %s, which is not registered and alive", after, call.Target, m)
				}
			}
		case "start-checkpoint", "assign":
			if !w.alive(call.Target) && !(w.finish && call.Kind == "assign") {
				w.failf("after %s: %s sent to %s, which is not registered and alive", after, call.Kind, call.Target)
			}
			if w.lost && !(w.finish && call.Kind == "assign") {
				w.failf("after %s: %s sent to %s although a member of its assembly was lost and no new assembly was deployed", after, call.Kind, call.Target)
			}
			if call.Kind == "start-checkpoint" {
				if call.CkptID <= w.done {
					w.failf("after %s: checkpoint id %d started, checkpoint %d is already complete", after, call.CkptID, w.done)
				}
				if call.CkptID != w.pending {
					w.pending, w.acked = call.CkptID, map[string]bool{}
				}
			}
		}
	}
	w.seen = len(w.net.Calls)
	w.finish = false
	// losses
	for _, m := range append(slices.Clone(w.asmOps), w.asmSRs...) {
		if !w.alive(m) && !w.lostM[m] {
			if len(w.lostM) == 0 {
				w.losses++
			}
			w.lostM[m] = true
		}
	}
	w.lost = len(w.lostM) > 0
}

// id is the node id of the process currently (or last) running in a slot: like the real workers
// (ksuid per process) a process started after a deregistration has a fresh id.
func (w *world) id(slot string) string {
	if g := w.gen[slot]; g > 0 {
		return fmt.Sprintf("%s.%d", slot, g)
	}
	return slot
}

func (w *world) stateKey() string {
	var nodes []string
	for id := range w.reg {
		age := w.clock.Now().Sub(w.hb[id])
		nodes = append(nodes, fmt.Sprintf("%s:%v:%v:%v", id, w.reg[id], age > deadline, w.purged[id]))
	}
	sort.Strings(nodes)
	var fd []string
	for id := range w.net.FailDeploy {
		fd = append(fd, id)
	}
	sort.Strings(fd)
	var ack []string
	for id := range w.acked {
		ack = append(ack, id)
	}
	sort.Strings(ack)
	return fmt.Sprint(w.p.workers, w.net.Hold, w.net.Held(), w.gen, w.down, "|", w.job.VerifDump(), "|", nodes, fd, w.clock.Labels(), w.pending, ack, w.lost, w.done, w.asmOps, w.asmSRs)
}

func body(c *mc.Ctx) {
	p := c.Param.(params)
	w := &world{c: c, p: p, clock: jobh.NewClock(), net: jobh.NewNet(), loc: jobh.NewMemLoc(), src: &jobh.FakeSource{}, hb: map[string]time.Time{}, reg: map[string]bool{}, purged: map[string]bool{}, acked: map[string]bool{}, lostM: map[string]bool{}, gen: map[string]int{}, down: map[string]bool{}}
	w.net.Hold = c.Choose(2) == 1
	if w.net.Hold {
		c.Op("deploymentsAreSlow")
	}
	nNodes := p.workers + 1 // one standby of each kind
	ops := make([]string, nNodes)
	srs := make([]string, nNodes)
	for i := range ops {
		ops[i], srs[i] = fmt.Sprintf("op%d", i), fmt.Sprintf("sr%d", i)
	}
	var jobPanic string
	schedh.Run(c, schedh.Opts{MaxSteps: 60000, NoAdvanceAlt: true, MaxAdvances: 200}, func() {
		errCh := make(chan error, 16)
		job, err := jobs.New(&jobs.NewParams{JobConfig: &config.Config{WorkerCount: p.workers, KeyGroupCount: 4, WorkingStorageLocation: "memory:///w", Sources: []connectors.SourceConfig{w.src}},
			Clock: w.clock, HeartbeatDeadline: deadline, Store: w.loc, ErrChan: errCh,
			OperatorFactory: func(senderID string, node *jobpb.NodeIdentity) proto.Operator {
				return &jobh.FakeOp{Id: node.Id, Net: w.net}
			},
			SourceRunnerFactory: func(node *jobpb.NodeIdentity) proto.SourceRunner { return &jobh.FakeSR{Id: node.Id, Net: w.net} }})
		if err != nil {
			panic(fmt.Sprintf("mc: harness: jobs.New: %v", err))
		}
		w.job = job
		enumerateIDs := true // in the enumerated part an operator may come back under its old id
		register := func(slot string) {
			if w.down[slot] {
				// a process started after a deregistration has a fresh id - except an operator
				// that is configured with a stable id (NewOperatorParams.ID); not while a slow
				// deployment is in flight (the Deploy call to the old process would fail then)
				sameID := enumerateIDs && strings.HasPrefix(slot, "op") && w.net.Held() == 0 && c.Choose(2) == 1
				if !sameID {
					w.gen[slot]++
				}
				delete(w.down, slot)
			}
			id := w.id(slot)
			if w.purged[id] && w.net.Held() > 0 {
				// the same process, which has been sent the deployment that is still in flight,
				// heartbeats again: the assembly being deployed has not lost it
				delete(w.lostM, id)
				w.lost = len(w.lostM) > 0
			}
			w.loc.Files[id+"/checkpoints"] = []byte(`{"checkpoints":[{"id":1,"wals":[],"levels":[]}]}`)
			w.reg[id], w.hb[id] = true, w.clock.Now()
			delete(w.purged, id)
			w.evaluate()
			if strings.HasPrefix(id, "op") {
				job.HandleRegisterOperator(&jobpb.NodeIdentity{Id: id, Host: "h"})
			} else {
				job.HandleRegisterSourceRunner(&jobpb.NodeIdentity{Id: id, Host: "h"})
			}
		}
		ack := func(id string, ckpt uint64) error {
			if strings.HasPrefix(id, "op") {
				return job.HandleOperatorCheckpointComplete(context.Background(), &snapshotpb.OperatorCheckpoint{CheckpointId: ckpt, OperatorId: id, DkvFileUri: id + "/checkpoints",
					KeyGroupRange: &snapshotpb.KeyGroupRange{Start: 0, End: 4}})
			}
			return job.HandleSourceRunnerCheckpointComplete(context.Background(), &jobpb.SourceRunnerCheckpointCompleteRequest{CheckpointId: ckpt, SourceRunnerId: id, SplitStates: [][]byte{[]byte(id)}})
		}
		complete := func() {
			// model: the pending checkpoint completes when every member has acknowledged it
			if w.pending == 0 {
				return
			}
			for _, m := range append(slices.Clone(w.asmOps), w.asmSRs...) {
				if !w.acked[m] {
					return
				}
			}
			w.done, w.pending, w.acked = w.pending, 0, map[string]bool{}
		}
		nodes := append(slices.Clone(ops), srs...)
		if p.prereg {
			for i := 0; i < p.workers; i++ {
				for _, slot := range []string{ops[i], srs[i]} {
					register(slot)
					c.Op("register(" + slot + ")")
					w.quiesce()
					w.judge("register(" + slot + ")")
				}
			}
		}
		for step := 0; step < p.depth; step++ {
			// the dump takes the job's locks, which are scheduling points: it must be computed on
			// every execution alike, replayed prefix or not
			key := w.stateKey()
			if c.Fresh() && c.Seen(key, p.depth-step) {
				return
			}
			nEv := 1 + 4*len(nodes) + 4
			ev := 0
			if p.beats {
				switch h := c.Choose(1 + len(nodes) + 2); {
				case h <= len(nodes):
					ev = h
				case h == len(nodes)+1:
					ev = nEv // the clock moves on by 2 s
				default:
					ev = 4*len(nodes) + 2 // checkpoint tick
				}
			} else {
				ev = c.Choose(nEv)
			}
			what := ""
			switch {
			case ev == 0:
				step = p.depth
				continue
			case ev <= len(nodes): // register / heartbeat
				register(nodes[ev-1])
				what = "register(" + w.id(nodes[ev-1]) + ")"
			case ev <= 2*len(nodes): // deregister
				slot := nodes[ev-1-len(nodes)]
				id := w.id(slot)
				if !w.reg[id] {
					continue
				}
				what = "deregister(" + id + ")"
				delete(w.reg, id)
				delete(w.hb, id)
				delete(w.purged, id)
				w.down[slot] = true
				w.evaluate()
				if strings.HasPrefix(id, "op") {
					job.HandleDeregisterOperator(&jobpb.NodeIdentity{Id: id, Host: "h"})
				} else {
					job.HandleDeregisterSourceRunner(&jobpb.NodeIdentity{Id: id, Host: "h"})
				}
			case ev <= 3*len(nodes): // acknowledge the pending checkpoint
				id := w.id(nodes[ev-1-2*len(nodes)])
				if w.pending == 0 || !w.alive(id) || w.acked[id] || !slices.Contains(append(slices.Clone(w.asmOps), w.asmSRs...), id) {
					continue
				}
				what = fmt.Sprintf("ack(%s,%d)", id, w.pending)
				if err := ack(id, w.pending); err != nil {
					w.failf("%s rejected: %v", what, err)
				}
				w.acked[id] = true
				complete()
			case ev <= 4*len(nodes): // the node's next Deploy fails
				id := w.id(nodes[ev-1-3*len(nodes)])
				if w.net.FailDeploy[id] {
					continue
				}
				what = "nextDeployFails(" + id + ")"
				w.net.FailDeploy[id] = true
			case ev == 4*len(nodes)+1:
				what = "clock+6s"
				w.clock.Advance(6 * time.Second)
			case ev == nEv:
				what = "clock+2s"
				w.clock.Advance(2 * time.Second)
			case ev == 4*len(nodes)+3:
				// from now on Deploy calls stay in flight until released
				if w.net.Hold || !p.rehold {
					continue
				}
				what = "deploymentsAreSlow"
				w.net.Hold = true
			case ev == 4*len(nodes)+4:
				if !w.net.Hold {
					continue
				}
				what = fmt.Sprintf("deploymentsFinish(%d in flight)", w.net.Held())
				// the splits the job assigns while it completes a deployment that was already in
				// flight when a member was lost are not held against it: the job is serial and can
				// only react once the deployment returned
				w.finish = w.lost
				w.net.Release()
			default:
				if !w.clock.Active("checkpointing") {
					continue
				}
				what = "checkpointTick"
				retry, _ := w.clock.Tick("checkpointing")
				_ = retry
			}
			c.Op(what)
			w.quiesce()
			w.judge(what)
			if len(w.errs) > 0 {
				return
			}
			if after := w.stateKey(); w.losses > 0 && c.Fresh() {
				c.Nontrivial(after)
			}
		}
		// bounded liveness: WorkerCount registrations of each kind, a tick, all acknowledgements
		// -> a checkpoint with a larger id completes
		before := w.done
		enumerateIDs = false
		c.Op("recover: deployments finish, register all, tick, acknowledge")
		if w.net.Hold {
			w.finish = w.lost
			w.net.Release()
			w.quiesce()
			w.judge("recover:deploymentsFinish")
		}
		if w.clock.Active("checkpointing") {
			// whatever the job still does with its current assembly is judged too
			w.clock.Tick("checkpointing")
			w.quiesce()
			w.judge("recover:tick-before-registrations")
		}
		w.clock.Advance(time.Second)
		// exactly WorkerCount nodes of each kind register (or heartbeat): the standby slots stay as
		// they are, so that recovery cannot lean on a standby
		for i := 0; i < p.workers; i++ {
			for _, slot := range []string{ops[i], srs[i]} {
				register(slot)
				w.quiesce()
				w.judge("recover:register(" + w.id(slot) + ")")
			}
		}
		for try := 0; try < 3 && w.done == before; try++ {
			if !w.clock.Active("checkpointing") {
				w.failf("after every node registered again the job does not checkpoint (status %s, no active checkpoint ticker)", w.job.VerifStatus())
				break
			}
			w.clock.Tick("checkpointing")
			w.quiesce()
			w.judge("recover:tick")
			if w.pending == 0 {
				continue
			}
			for _, m := range append(slices.Clone(w.asmOps), w.asmSRs...) {
				if w.acked[m] {
					continue
				}
				if err := ack(m, w.pending); err != nil {
					w.failf("recover: ack(%s,%d) rejected: %v", m, w.pending, err)
				}
				w.acked[m] = true
			}
			complete()
			w.quiesce()
			w.judge("recover:acks")
		}
		if len(w.errs) == 0 {
			cur := w.loc.Names()
			has := false
			for _, n := range cur {
				has = has || strings.HasSuffix(n, ".snapshot")
			}
			if w.done <= before || !has {
				w.failf("after recovery no new checkpoint completed (latest completed %d, before %d; files %v; job: %s)", w.done, before, cur, w.job.VerifDump())
			}
		}
	})
	_ = jobPanic
	if len(w.errs) > 0 {
		sig := "job-invariant"
		e := w.errs[0]
		switch {
		case strings.Contains(e, "not registered and alive"):
			sig = "call-to-dead-node"
		case strings.Contains(e, "WorkerCount is"):
			sig = "assembly-size"
		case strings.Contains(e, "no new assembly was deployed"):
			sig = "call-to-lost-assembly"
		case strings.Contains(e, "latest completed checkpoint is"):
			sig = "redeploy-from-wrong-checkpoint"
		case strings.Contains(e, "rejected"):
			sig = "ack-rejected"
		case strings.Contains(e, "no new checkpoint completed"), strings.Contains(e, "does not checkpoint"):
			sig = "checkpointing-does-not-resume"
		}
		c.FailSig(sig, "%s", strings.Join(w.errs, "; "))
	}
}
