// Package c06: rescaling redistributes checkpointed state completely and exclusively
// (DESIGN §5 C06).
package c06

import (
	"fmt"
	"slices"

	"reduction.dev/reduction/partitioning"
	"verif.local/mc/mc"
	"verif.local/mc/report"
)

func Run(k *report.Check) {
	k.Rule = "(a) assignment: every key-group count g<=12 (quick: 9), every old operator count M and new operator count N up to g+2, and every order (all permutations for M<=5, rotations and reversal beyond) in which the old operators' checkpoints were recorded: new operator i must be handed exactly the old checkpoints whose key-group range intersects its own. (b) end to end: see the parts below. non-trivial = distinct (g,M,N,order) with an order other than ascending, and distinct end-to-end histories"
	k.Assumptions = []string{"operators with an empty key-group range (N>g) own nothing: for them only 'nothing is lost' is required"}
	k.Budget(120, 1200)
	k.Parts(4)
	k.Explore("assign-ranges", mc.Config{}, k.Pick(9, 12), assignBody)
	endToEnd(k)
}

func perms(n int) [][]int {
	idx := make([]int, n)
	for i := range idx {
		idx[i] = i
	}
	if n > 5 {
		var out [][]int
		for r := 0; r < n; r++ {
			out = append(out, append(slices.Clone(idx[r:]), idx[:r]...))
		}
		rev := slices.Clone(idx)
		slices.Reverse(rev)
		return append(out, rev)
	}
	var out [][]int
	var rec func(k int)
	rec = func(k int) {
		if k == n {
			out = append(out, slices.Clone(idx))
			return
		}
		for i := k; i < n; i++ {
			idx[k], idx[i] = idx[i], idx[k]
			rec(k + 1)
			idx[k], idx[i] = idx[i], idx[k]
		}
	}
	rec(0)
	return out
}

func assignBody(c *mc.Ctx) {
	maxG := c.Param.(int)
	g := 1 + c.Choose(maxG)
	m := 1 + c.Choose(g+2)
	n := 1 + c.Choose(g+2)
	ps := perms(m)
	perm := ps[c.Choose(len(ps))]
	oldSorted := partitioning.NewKeySpace(g, m).KeyGroupRanges()
	to := partitioning.NewKeySpace(g, n).KeyGroupRanges()
	from := make([]partitioning.KeyGroupRange, m)
	for i, j := range perm {
		from[i] = oldSorted[j]
	}
	c.Op("g=%d M=%d N=%d recorded order %v", g, m, n, perm)
	got := partitioning.AssignRanges(to, from)
	if len(got) != len(to) {
		c.Failf("AssignRanges returned %d assignments for %d new operators", len(got), len(to))
	}
	for i, tr := range to {
		var want []int
		for j, fr := range from {
			if max(tr.Start, fr.Start) < min(tr.End, fr.End) {
				want = append(want, j)
			}
		}
		g2 := slices.Clone(got[i])
		slices.Sort(g2)
		if tr.Size() == 0 {
			continue // owns nothing: whatever it is handed is never visible
		}
		for _, j := range want {
			if !slices.Contains(g2, j) {
				c.FailSig("assign-lost", "g=%d: new operator %d %v is not handed recorded checkpoint %d %v although the ranges intersect (got %v; recorded ranges %v)", g, i, tr, j, from[j], got[i], from)
			}
		}
		for _, j := range g2 {
			if !slices.Contains(want, j) {
				c.FailSig("assign-foreign", "g=%d: new operator %d %v is handed recorded checkpoint %d %v although the ranges do not intersect", g, i, tr, j, from[j])
			}
		}
		if len(slices.Compact(g2)) != len(g2) {
			c.FailSig("assign-duplicate", "g=%d: new operator %d is handed a checkpoint twice: %v", g, i, got[i])
		}
	}
	if !slices.IsSorted(perm) {
		c.Nontrivial(fmt.Sprint(g, m, n, perm))
	}
}
