// Package atomic replaces sync/atomic in instrumented repository code.
package atomic

import (
	ratomic "sync/atomic"

	"verif.local/mc/shim"
)

type Bool struct{ v ratomic.Bool }

func (b *Bool) Load() bool                    { shim.Point("atomic"); return b.v.Load() }
func (b *Bool) Store(x bool)                  { shim.Point("atomic"); b.v.Store(x) }
func (b *Bool) CompareAndSwap(o, n bool) bool { shim.Point("atomic"); return b.v.CompareAndSwap(o, n) }
func (b *Bool) Swap(n bool) bool              { shim.Point("atomic"); return b.v.Swap(n) }

type Uint32 struct{ v ratomic.Uint32 }

func (b *Uint32) Load() uint32   { shim.Point("atomic"); return b.v.Load() }
func (b *Uint32) Store(x uint32) { shim.Point("atomic"); b.v.Store(x) }
func (b *Uint32) CompareAndSwap(o, n uint32) bool {
	shim.Point("atomic")
	return b.v.CompareAndSwap(o, n)
}
func (b *Uint32) Add(d uint32) uint32 { shim.Point("atomic"); return b.v.Add(d) }

type Int64 struct{ v ratomic.Int64 }

func (b *Int64) Load() int64   { shim.Point("atomic"); return b.v.Load() }
func (b *Int64) Store(x int64) { shim.Point("atomic"); b.v.Store(x) }
func (b *Int64) CompareAndSwap(o, n int64) bool {
	shim.Point("atomic")
	return b.v.CompareAndSwap(o, n)
}
func (b *Int64) Add(d int64) int64 { shim.Point("atomic"); return b.v.Add(d) }

type Int32 struct{ v ratomic.Int32 }

func (b *Int32) Load() int32       { shim.Point("atomic"); return b.v.Load() }
func (b *Int32) Store(x int32)     { shim.Point("atomic"); b.v.Store(x) }
func (b *Int32) Add(d int32) int32 { shim.Point("atomic"); return b.v.Add(d) }

type Uint64 struct{ v ratomic.Uint64 }

func (b *Uint64) Load() uint64        { shim.Point("atomic"); return b.v.Load() }
func (b *Uint64) Store(x uint64)      { shim.Point("atomic"); b.v.Store(x) }
func (b *Uint64) Add(d uint64) uint64 { shim.Point("atomic"); return b.v.Add(d) }

func AddInt64(p *int64, d int64) int64 { shim.Point("atomic"); return ratomic.AddInt64(p, d) }
func LoadInt64(p *int64) int64         { shim.Point("atomic"); return ratomic.LoadInt64(p) }

func (b *Uint32) Swap(n uint32) uint32 { shim.Point("atomic"); return b.v.Swap(n) }
func (b *Int64) Swap(n int64) int64    { shim.Point("atomic"); return b.v.Swap(n) }
func (b *Int32) Swap(n int32) int32    { shim.Point("atomic"); return b.v.Swap(n) }
func (b *Int32) CompareAndSwap(o, n int32) bool {
	shim.Point("atomic")
	return b.v.CompareAndSwap(o, n)
}
func (b *Uint64) Swap(n uint64) uint64 { shim.Point("atomic"); return b.v.Swap(n) }
func (b *Uint64) CompareAndSwap(o, n uint64) bool {
	shim.Point("atomic")
	return b.v.CompareAndSwap(o, n)
}

type Uintptr struct{ v ratomic.Uintptr }

func (b *Uintptr) Load() uintptr         { shim.Point("atomic"); return b.v.Load() }
func (b *Uintptr) Store(x uintptr)       { shim.Point("atomic"); b.v.Store(x) }
func (b *Uintptr) Add(d uintptr) uintptr { shim.Point("atomic"); return b.v.Add(d) }
func (b *Uintptr) Swap(n uintptr) uintptr {
	shim.Point("atomic")
	return b.v.Swap(n)
}
func (b *Uintptr) CompareAndSwap(o, n uintptr) bool {
	shim.Point("atomic")
	return b.v.CompareAndSwap(o, n)
}

type Pointer[T any] struct{ v ratomic.Pointer[T] }

func (p *Pointer[T]) Load() *T     { shim.Point("atomic"); return p.v.Load() }
func (p *Pointer[T]) Store(x *T)   { shim.Point("atomic"); p.v.Store(x) }
func (p *Pointer[T]) Swap(n *T) *T { shim.Point("atomic"); return p.v.Swap(n) }
func (p *Pointer[T]) CompareAndSwap(o, n *T) bool {
	shim.Point("atomic")
	return p.v.CompareAndSwap(o, n)
}

type Value struct{ v ratomic.Value }

func (v *Value) Load() any      { shim.Point("atomic"); return v.v.Load() }
func (v *Value) Store(x any)    { shim.Point("atomic"); v.v.Store(x) }
func (v *Value) Swap(n any) any { shim.Point("atomic"); return v.v.Swap(n) }
func (v *Value) CompareAndSwap(o, n any) bool {
	shim.Point("atomic")
	return v.v.CompareAndSwap(o, n)
}

func AddInt32(p *int32, d int32) int32      { shim.Point("atomic"); return ratomic.AddInt32(p, d) }
func AddUint32(p *uint32, d uint32) uint32  { shim.Point("atomic"); return ratomic.AddUint32(p, d) }
func AddUint64(p *uint64, d uint64) uint64  { shim.Point("atomic"); return ratomic.AddUint64(p, d) }
func LoadInt32(p *int32) int32              { shim.Point("atomic"); return ratomic.LoadInt32(p) }
func LoadUint32(p *uint32) uint32           { shim.Point("atomic"); return ratomic.LoadUint32(p) }
func LoadUint64(p *uint64) uint64           { shim.Point("atomic"); return ratomic.LoadUint64(p) }
func StoreInt32(p *int32, v int32)          { shim.Point("atomic"); ratomic.StoreInt32(p, v) }
func StoreInt64(p *int64, v int64)          { shim.Point("atomic"); ratomic.StoreInt64(p, v) }
func StoreUint32(p *uint32, v uint32)       { shim.Point("atomic"); ratomic.StoreUint32(p, v) }
func StoreUint64(p *uint64, v uint64)       { shim.Point("atomic"); ratomic.StoreUint64(p, v) }
func SwapInt32(p *int32, v int32) int32     { shim.Point("atomic"); return ratomic.SwapInt32(p, v) }
func SwapInt64(p *int64, v int64) int64     { shim.Point("atomic"); return ratomic.SwapInt64(p, v) }
func SwapUint32(p *uint32, v uint32) uint32 { shim.Point("atomic"); return ratomic.SwapUint32(p, v) }
func SwapUint64(p *uint64, v uint64) uint64 { shim.Point("atomic"); return ratomic.SwapUint64(p, v) }
func CompareAndSwapInt32(p *int32, o, n int32) bool {
	shim.Point("atomic")
	return ratomic.CompareAndSwapInt32(p, o, n)
}
func CompareAndSwapInt64(p *int64, o, n int64) bool {
	shim.Point("atomic")
	return ratomic.CompareAndSwapInt64(p, o, n)
}
func CompareAndSwapUint32(p *uint32, o, n uint32) bool {
	shim.Point("atomic")
	return ratomic.CompareAndSwapUint32(p, o, n)
}
func CompareAndSwapUint64(p *uint64, o, n uint64) bool {
	shim.Point("atomic")
	return ratomic.CompareAndSwapUint64(p, o, n)
}
