// Package sync replaces the standard sync package in instrumented repository code.
package sync

import (
	rsync "sync"

	"verif.local/mc/shim"
)

type Locker = rsync.Locker
type Map = rsync.Map
type Pool = rsync.Pool

type Mutex struct{ m rsync.Mutex }

func (m *Mutex) Lock() {
	if shim.S == nil {
		m.m.Lock()
		return
	}
	shim.Point("lock")
	for !m.m.TryLock() {
		shim.WaitOn(m)
	}
}
func (m *Mutex) Unlock()       { shim.Point("unlock"); m.m.Unlock(); shim.Released(m) }
func (m *Mutex) TryLock() bool { shim.Point("trylock"); return m.m.TryLock() }

type RWMutex struct{ m rsync.RWMutex }

func (m *RWMutex) Lock() {
	if shim.S == nil {
		m.m.Lock()
		return
	}
	shim.Point("wlock")
	for !m.m.TryLock() {
		shim.WaitOn(m)
	}
}
func (m *RWMutex) Unlock() { shim.Point("wunlock"); m.m.Unlock(); shim.Released(m) }
func (m *RWMutex) RLock() {
	if shim.S == nil {
		m.m.RLock()
		return
	}
	shim.Point("rlock")
	for !m.m.TryRLock() {
		shim.WaitOn(m)
	}
}
func (m *RWMutex) RUnlock() { shim.Point("runlock"); m.m.RUnlock(); shim.Released(m) }

type WaitGroup struct{ w rsync.WaitGroup }

func (w *WaitGroup) Add(n int) { shim.Point("wg-add"); w.w.Add(n) }
func (w *WaitGroup) Done()     { shim.Point("wg-done"); w.w.Done() }
func (w *WaitGroup) Wait()     { shim.Point("wg-wait"); w.w.Wait(); shim.Point("wg-waited") }

type Once struct{ o rsync.Once }

func (o *Once) Do(f func()) { shim.Point("once"); o.o.Do(f) }
