package c07

import (
	"fmt"

	"reduction.dev/reduction/dkv"
	"verif.local/mc/harness/dkvh"
	"verif.local/mc/harness/schedh"
	"verif.local/mc/mc"
	"verif.local/mc/shim"
)

// Schedule tier: designated colliding histories with the foreground thread reading while the
// flush and compaction goroutines of the real database run; every schedule within the delay
// bound. One writer, so a read must return the reference state after the last completed write.

type sparams struct{}

type wop struct {
	key string
	del bool
}

var histories = []struct {
	name string
	o    dkvh.Options
	ops  []wop
}{
	{"overwrite across a rotation, then read while the flush runs", dkvh.Options{Mem: 30, Table: 40, L0: 2, Smallest: 4500, Ampl: 50},
		[]wop{{"a", false}, {"b", false}, {"a", false}, {"b", true}}},
	{"delete of a flushed key while a second flush and a compaction run", dkvh.Options{Mem: 30, Table: 40, L0: 2, Smallest: 4500, Ampl: 50},
		[]wop{{"a", false}, {"b", false}, {"a", true}, {"c", false}, {"b", false}}},
	{"three level-0 tables with versions of one key (trigger 3)", dkvh.Options{Mem: 30, Table: 40, L0: 3, Smallest: 4500, Ampl: 50},
		[]wop{{"a", false}, {"b", false}, {"a", false}, {"c", false}, {"a", true}, {"b", false}}},
	{"multi-table sorted level (one entry per table)", dkvh.Options{Mem: 30, Table: 1, L0: 1, Smallest: 4500, Ampl: 50},
		[]wop{{"a", false}, {"b", false}, {"c", false}, {"a", false}}},
}

func schedBody(c *mc.Ctx) {
	h := histories[c.Choose(len(histories))]
	c.Op("[%s; %s]", h.name, h.o)
	shim.ClearGlobalTune()
	shim.SetGlobalTune("SmallestLevelSize", h.o.Smallest)
	shim.SetGlobalTune("MaxSizeAmplificationPercent", h.o.Ampl)
	defer shim.ClearGlobalTune()
	dkv.VerifResetQueues()
	var failure string
	var sig string
	shadowedReads := 0
	schedh.Run(c, schedh.Opts{MaxSteps: 20000, NoAdvanceAlt: true}, func() {
		fs := dkvh.NewFS()
		db := dkv.Open(h.o.DBOptions(fs), nil)
		ref := dkvh.Ref{}
		check := func(when string) bool {
			for _, k := range []string{"a", "b", "c"} {
				e, err := db.Get([]byte(k))
				want, has := ref[k]
				got, present := "", false
				if err == nil && !e.IsDelete() {
					got, present = string(e.Value()), true
				}
				if present != has || got != want {
					sig = "get-during-background-work"
					failure = fmt.Sprintf("%s: Get(%q) = %q (present %v), the latest completed write left %q (present %v)", when, k, got, present, want, has)
					return false
				}
			}
			var scanErr error
			var got []string
			for e := range db.ScanPrefix(nil, &scanErr) {
				got = append(got, fmt.Sprintf("%q=%s", e.Key(), e.Value()))
			}
			if scanErr != nil || fmt.Sprint(got) != fmt.Sprint(ref.Scan("")) {
				sig = "scan-during-background-work"
				failure = fmt.Sprintf("%s: ScanPrefix(\"\") = %v (err %v), the latest completed write left %v", when, got, scanErr, ref.Scan(""))
				return false
			}
			if sealed, _ := dkvh.Layout(db); sealed > 0 {
				shadowedReads++
			}
			return true
		}
		for i, w := range h.ops {
			if w.del {
				db.Delete([]byte(w.key))
				delete(ref, w.key)
			} else {
				v := fmt.Sprintf("v%d", i)
				db.Put([]byte(w.key), []byte(v))
				ref[w.key] = v
			}
			if !check(fmt.Sprintf("after write %d", i)) || !check(fmt.Sprintf("a little later after write %d", i)) {
				return
			}
		}
		if err := db.WaitOnTasks(); err != nil {
			sig, failure = "background-task-failed", fmt.Sprintf("background task failed: %v", err)
			return
		}
		check("at quiescence")
	})
	if failure != "" {
		c.FailSig(sig, "%s", failure)
	}
	if shadowedReads > 0 {
		c.Note("executions_reading_while_a_sealed_memtable_awaits_its_flush")
	}
	c.Nontrivial(fmt.Sprint(h.name, c.Used(), shadowedReads))
	c.Outcome(fmt.Sprint(h.name, shadowedReads))
}
