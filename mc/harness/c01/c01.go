// Package c01: exactly-once keyed state across worker failure and recovery (DESIGN §5 C01).
package c01

import (
	"fmt"
	"os"
	"strings"
	"time"

	"reduction.dev/reduction/batching"
	"verif.local/mc/harness/cluster"
	"verif.local/mc/harness/refs"
	"verif.local/mc/harness/schedh"
	"verif.local/mc/mc"
	"verif.local/mc/report"
	"verif.local/mc/shim"
)

const keyGroups = 4

var keys = func() []string {
	var k0, k1 []string
	for c := 'a'; c <= 'z' && (len(k0) < 2 || len(k1) < 2); c++ {
		k := string(c)
		if refs.OwnerIndex([]byte(k), keyGroups, 2) == 0 {
			k0 = append(k0, k)
		} else {
			k1 = append(k1, k)
		}
	}
	return []string{k0[0], k1[0], k0[1], k1[1]}
}()

type scenario struct {
	name   string
	splits map[string][]cluster.Record
	order  []string
}

func rec(split string, idx int, ks ...string) cluster.Record {
	return cluster.Record{Split: split, Idx: idx, Keys: ks}
}

var scenarios = []scenario{
	{"one split, five records over three keys", map[string][]cluster.Record{
		"a": {rec("a", 0, keys[0]), rec("a", 1, keys[1]), rec("a", 2, keys[0], keys[1]), rec("a", 3, keys[2]), rec("a", 4, keys[0])}}, []string{"a"}},
	{"one split, ten records (input continues after the first checkpoints)", map[string][]cluster.Record{
		"a": {rec("a", 0, keys[0]), rec("a", 1, keys[1]), rec("a", 2, keys[0]), rec("a", 3, keys[1]), rec("a", 4, keys[0], keys[1]), rec("a", 5, keys[2]), rec("a", 6, keys[0]), rec("a", 7, keys[1]), rec("a", 8, keys[0]), rec("a", 9, keys[3])}}, []string{"a"}},
	{"two splits sharing keys", map[string][]cluster.Record{
		"a": {rec("a", 0, keys[0]), rec("a", 1, keys[1]), rec("a", 2, keys[0])},
		"b": {rec("b", 0, keys[0]), rec("b", 1, keys[3]), rec("b", 2, keys[1])}}, []string{"a", "b"}},
}

type params struct {
	maxKills    int
	thorough    bool
	slowStorage bool // focused part: queued snapshot writes, one worker, deeper deviation bound
	tables      bool // memtables of a few entries: the operators' checkpoints consist of table files, restores load tables
}

func Run(k *report.Check) {
	k.Rule = "cluster simulation: a real Job, W real operators and source runners (W in {1,2}), a harness source of 1-2 splits with 5-6 records over keys that collide and spread across operators, key-group count 4, read size 1-2, batch size 1-2 with 10 ms time-out; components run with the default schedule, the explorer branches at network and environment events: the next queued RPC to deliver (default oldest first, any of the next three costs one deviation), the checkpoint tick positions (enumerated), a part repeats the runs with memtables of 40 / 120 bytes (checkpoints made of table files, compaction at two level-0 tables); a focused part (one worker) queues the job's snapshot file writes like remote calls - by default they complete only when no call is queued - and explores one more deviation; and the kill of any live worker at any network event (one deviation; a fresh worker registers, the survivor heartbeats, the job redeploys from its latest completed checkpoint). Oracle in the handler on every ProcessEventBatch: a record is never in the supplied state of its key already, every earlier record of the same split and key is; keys only reach their owning operator; at the end (input consumed, final checkpoint) the keyed state read back from the operators' DKV checkpoints with fresh databases equals the failure-free fold of the whole input. non-trivial = distinct (scenario, kill point, delivery order) executions with a kill, and of those the ones whose restore loaded non-empty state"
	k.Assumptions = []string{"interleavings inside a component are the component checks' subject (C02, C04, C07, C08, C13, C20): here only network-level orders and failure points are explored", "a killed worker's calls fail from the kill on; storage is shared and survives"}
	k.Budget(150, 1500)
	k.Parts(3)
	bound := k.Pick(1, 2)
	k.ExploreSched(fmt.Sprintf("cluster/slow-snapshot-storage,deviations<=%d", bound+1), mc.Config{Bound: bound + 1, RecycleAfter: 1500, Deadline: k.Within(0.4)}, params{maxKills: 1, thorough: k.Thorough(), slowStorage: true}, body)
	// the same with memtables of a few entries: state reaches table files and is compacted, so that a
	// recovery (also into another operator count's ranges) restores from tables, not only from the WAL
	k.ExploreSched(fmt.Sprintf("cluster/tiny-memtables,deviations<=%d", bound), mc.Config{Bound: bound, RecycleAfter: 1500, Deadline: k.Within(0.35)}, params{maxKills: bound, thorough: k.Thorough(), tables: true}, body)
	k.ExploreSched(fmt.Sprintf("cluster/deviations<=%d", bound), mc.Config{Bound: bound, RecycleAfter: 1500}, params{maxKills: bound, thorough: k.Thorough()}, body)
}

func body(c *mc.Ctx) {
	p := c.Param.(params)
	sc := scenarios[c.Choose(len(scenarios))]
	cfg := &cluster.Config{KeyGroups: keyGroups, Splits: sc.splits, SplitOrder: sc.order, MaxEvents: 400}
	if p.tables {
		shim.SetGlobalTune("MemTableSize", uint64([]int{40, 120}[c.Choose(2)]))
		shim.SetGlobalTune("L0Trigger", 2)
		defer shim.ClearGlobalTune()
		cfg.Workers = 1 + c.Choose(2)
		cfg.ReadSize = 1
		cfg.Batching = batching.EventBatcherParams{MaxSize: 1 + c.Choose(2), MaxDelay: 10 * time.Millisecond}
		cfg.TickAfter = [][]int{{1, 4}, {2}}[c.Choose(2)]
	} else if p.slowStorage {
		cfg.Workers, cfg.ReadSize = 1, 1
		cfg.Batching = batching.EventBatcherParams{MaxSize: 1, MaxDelay: 10 * time.Millisecond}
		cfg.TickAfter = [][]int{{1}, {1, 4}}[c.Choose(2)]
	} else {
		cfg.Workers = 1 + c.Choose(2)
		cfg.ReadSize = 1 + c.Choose(2)
		cfg.Batching = batching.EventBatcherParams{MaxSize: 1 + c.Choose(2), MaxDelay: 10 * time.Millisecond}
		cfg.TickAfter = [][]int{{1}, {1, 4}, {}}[c.Choose(3)]
	}
	// order in which the operators' checkpoint acknowledgements reach the job (an enumerated
	// dimension: the recorded order decides how a restore hands checkpoints to new operators)
	reverseAcks := cfg.Workers > 1 && c.Choose(2) == 1
	// slow storage part: the job's snapshot file writes are queued events which by default complete
	// only when no remote call is queued, so that kills, registrations and deployments land
	// between the last acknowledgement of a checkpoint and its publication
	slowWrite := p.slowStorage
	cfg.QueuedSnapshotWrites = slowWrite
	c.Op("[%s; workers=%d read=%d MaxSize=%d ticks after %v event batches; operator acks %s; snapshot write %s]", sc.name, cfg.Workers, cfg.ReadSize, cfg.Batching.MaxSize, cfg.TickAfter, map[bool]string{true: "newest first", false: "in order"}[reverseAcks], map[bool]string{true: "queued, completes last by default", false: "instantaneous"}[slowWrite])
	// defaultIndex: the call delivered by default. Oldest first, except that operator
	// acknowledgements are held until nothing else is queued and then delivered newest first
	// when reverseAcks is set.
	defaultIndex := func(pend []string) int {
		lastAck, lastWrite := -1, -1
		for i, l := range pend {
			switch {
			case slowWrite && strings.HasPrefix(l, "StorageWrite("):
				lastWrite = i
			case reverseAcks && strings.HasPrefix(l, "OperatorCheckpointComplete("):
				lastAck = i
			default:
				return i
			}
		}
		if lastAck >= 0 {
			return lastAck
		}
		return max(lastWrite, 0)
	}
	var cl *cluster.Cluster
	finished := false
	killedAt := ""
	survivors := false // a worker survived a failure of its assembly and was deployed again
	stuckPrefix := func() string {
		if survivors {
			return "survivor-redeployed:"
		}
		return ""
	}
	schedh.Run(c, schedh.Opts{MaxSteps: 400000, NoAdvanceAlt: true, MaxAdvances: 3000, FixedSchedule: true, SigPrefix: stuckPrefix}, func() {
		cl = cluster.New(c, cfg)
		defer cl.Close()
		cl.StartJob("")
		for i := 0; i < cfg.Workers; i++ {
			cl.AddWorker()
		}
		tickIdx, idle := 0, 0
		finalTicked := false
		var finalBase uint64
		for ev := 0; ev < cfg.MaxEvents && len(cl.Failures) == 0; ev++ {
			cl.Quiesce()
			if len(cl.Failures) > 0 {
				break
			}
			// a call to a dead node fails after a time-out: every four such calls a heartbeat period
			// (3 s on the harness clock) has passed and the live workers register again; a node that
			// died is purged once two periods have passed without its heartbeat
			if cl.DeadCalls >= 4 {
				cl.DeadCalls = 0
				c.Op("(calls to dead nodes timed out: 3 s pass, live workers heartbeat)")
				cl.Clock.Advance(3 * time.Second)
				cl.Heartbeat()
				continue
			}
			pend := cl.Pending()
			if tickIdx < len(cfg.TickAfter) && cl.EventBatches >= cfg.TickAfter[tickIdx] && cl.Clock.Active("checkpointing") {
				tickIdx++
				cl.Ticks++
				c.Op("tick")
				shim.Go(func() { cl.Clock.Tick("checkpointing") })
				continue
			}
			live := cfg.Workers
			nDeliver := min(len(pend), 4)
			alts := 1 + max(nDeliver-1, 0)
			killBase := alts
			if cl.Kills < p.maxKills && !finalTicked {
				alts += live
				if live > 1 {
					alts++ // kill every worker at once
				}
			}
			choice := c.Deviate(alts)
			switch {
			case choice == 0:
				if len(pend) > 0 {
					l := cl.Deliver(defaultIndex(pend))
					if !strings.HasSuffix(l, ": wm)") { // watermark traffic alone is not progress
						idle = 0
					}
					if c.Replay {
						c.Op("  deliver %s", l)
						if os.Getenv("C01_DEBUG") != "" {
							c.Op("      job: %s", cl.Job.VerifDump())
						}
					}
					continue
				}
				if c.Replay {
					c.Op("  (time passes; consumed=%v idle=%d)", cl.InputConsumed(), idle)
				}
				// nothing queued: time passes (batch time-outs, watermark ticks)
				idle++
				shim.Sleep(250 * time.Millisecond)
				quiet := true
				for _, l := range cl.Pending() {
					quiet = quiet && strings.HasSuffix(l, ": wm)")
				}
				if idle >= 2 && cl.InputConsumed() && quiet {
					if !finalTicked {
						if !cl.Clock.Active("checkpointing") {
							if idle > 6 {
								cl.Failures = append(cl.Failures, "the input is consumed but the job is not running (no checkpoint ticker) and does not recover")
							}
							continue
						}
						finalTicked = true
						if cp := cl.CompletedCheckpoint(); cp != nil {
							finalBase = cp.Id
						}
						c.Op("tick(final)")
						shim.Go(func() { cl.Clock.Tick("checkpointing") })
						continue
					}
					if cp := cl.CompletedCheckpoint(); cp != nil && cp.Id > finalBase {
						finished = true
						ev = cfg.MaxEvents
					} else if idle > 8 {
						cl.Failures = append(cl.Failures, "the final checkpoint does not complete")
					}
				}
			case choice < killBase:
				idle = 0
				// the alternatives are the first queued calls other than the default one
				idx, def := choice, defaultIndex(pend)
				if def < nDeliver && choice <= def {
					idx = choice - 1
				}
				c.Op("deliver-out-of-order: %s", cl.Deliver(idx))
			default:
				idle = 0
				i := choice - killBase
				killedAt = fmt.Sprintf("%d event batches, %d queued", cl.EventBatches, len(pend))
				if i == live {
					c.Op("KILL all workers (queued: %s)", strings.Join(pend, "; "))
					for n := 0; n < live; n++ {
						cl.Kill(0)
					}
					cl.Kills -= live - 1 // one failure event
					cl.Clock.Advance(6 * time.Second)
					for n := 0; n < live; n++ {
						cl.AddWorker()
					}
				} else {
					c.Op("KILL worker %d (queued: %s)", i, strings.Join(pend, "; "))
					cl.Kill(i)
					survivors = survivors || live > 1
					cl.Clock.Advance(6 * time.Second)
					cl.AddWorker()
					cl.Heartbeat()
				}
			}
		}
		if len(cl.Failures) == 0 && finished {
			snap := cl.CompletedCheckpoint()
			got, errs := cl.StateOf(snap)
			cl.Failures = append(cl.Failures, errs...)
			if g, w := cluster.RenderState(got), cluster.RenderState(cl.ExpectedState(nil)); g != w && len(errs) == 0 {
				cl.Failures = append(cl.Failures, fmt.Sprintf("final keyed state {%s} differs from the failure-free fold {%s}", g, w))
			}
		}
		cl.Stop()
	})
	if len(cl.Failures) > 0 {
		sig := "exactly-once"
		f := cl.Failures[0]
		switch {
		case strings.Contains(f, "a second time"):
			sig = "record-applied-twice"
		case strings.Contains(f, "lost or reordered"):
			sig = "record-lost"
		case strings.Contains(f, "final keyed state"):
			sig = "final-state-differs"
		case strings.Contains(f, "was routed"):
			sig = "misrouted"
		case strings.Contains(f, "does not recover"), strings.Contains(f, "does not complete"):
			sig = "no-recovery"
		case strings.Contains(f, "panics"):
			sig = "restore-panics"
		}
		if survivors {
			sig = "survivor-redeployed:" + sig
		}
		c.FailSig(sig, "%s", strings.Join(cl.Failures, "; "))
	}
	if !finished {
		sig := "horizon"
		if survivors {
			sig = "survivor-redeployed:horizon"
		}
		c.FailSig(sig, "the run did not reach its end within %d network events (kills %d; queued: %v)", cfg.MaxEvents, cl.Kills, cl.Pending())
	}
	if cl.Kills > 0 && cl.Restores > 0 {
		c.Note("executions_with_a_restore_from_a_checkpoint")
		if os.Getenv("C01_DEBUG") != "" {
			if f, err := os.OpenFile("/tmp/c01dbg.txt", os.O_APPEND|os.O_CREATE|os.O_WRONLY, 0o644); err == nil {
				fmt.Fprintf(f, "RESTORE %v %v\n", c.Choices(), c.Ops())
				f.Close()
			}
		}
	}
	if cl.Kills > 0 {
		c.Note("executions_with_a_kill")
		if cl.StateLoaded() > 0 {
			c.Note("executions_whose_restore_loaded_state")
		}
		c.Nontrivial(fmt.Sprint(sc.name, cfg.Workers, cfg.ReadSize, cfg.Batching.MaxSize, cfg.TickAfter, killedAt, cl.StateLoaded() > 0))
	}
	c.Outcome(fmt.Sprint(sc.name, cfg.Workers, cl.Kills, killedAt))
}
