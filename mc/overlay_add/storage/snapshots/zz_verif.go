package snapshots

// Added by the verification overlay (never part of /repo): canonical dump of the store's
// in-memory state for explicit-state searches, and the path-segment encoding for oracles.

import (
	"fmt"
	"sort"
)

func (s *Store) VerifDump() string {
	s.stateMu.Lock()
	defer s.stateMu.Unlock()
	out := fmt.Sprintf("ctr=%d completed=[", s.state.checkpointID)
	for _, c := range s.state.completedSnapshots {
		out += fmt.Sprintf("%d ", c.id)
	}
	out += "]"
	if p := s.state.pendingSnapshot; p != nil {
		var ops, srs []string
		for id, done := range p.operatorIDsComplete {
			ops = append(ops, fmt.Sprintf("%s=%v", id, done))
		}
		for id, done := range p.sourceRunnerIDsComplete {
			srs = append(srs, fmt.Sprintf("%s=%v", id, done))
		}
		sort.Strings(ops)
		sort.Strings(srs)
		var entries []string
		for _, e := range p.operatorCheckpoints {
			entries = append(entries, e.OperatorId)
		}
		var splits []string
		for _, st := range p.splitStates {
			splits = append(splits, string(st))
		}
		out += fmt.Sprintf(" pending{id=%d sp=%v ops=%v srs=%v entries=%v splits=%v}", p.id, p.isSavepoint, ops, srs, entries, splits)
	}
	return out
}

// VerifPathSegment is the path segment used for checkpoint id in file names.
func VerifPathSegment(id uint64) string { return pathSegment(id) }
