package c04

import (
	"context"
	"fmt"
	"strings"
	"time"

	"reduction.dev/reduction/batching"
	"reduction.dev/reduction/clocks"
	"reduction.dev/reduction/connectors/embedded"
	"reduction.dev/reduction/dkv/storage"
	"reduction.dev/reduction/proto/jobpb"
	"reduction.dev/reduction/proto/workerpb"
	"reduction.dev/reduction/workers/operator"
	"verif.local/mc/harness/dkvh"
	"verif.local/mc/harness/oph"
	"verif.local/mc/harness/schedh"
	"verif.local/mc/mc"
	"verif.local/mc/report"
	"verif.local/mc/shim"
)

// operatorPart: C11's operator side. A real Operator with U upstream source runners; every
// merge order of per-runner message sequences (the operator consumes them one at a time, so
// merge orders are all interleavings there are).
func operatorPart(k *report.Check) {
	for u := 1; u <= k.Pick(2, 3); u++ {
		k.ExploreSched(fmt.Sprintf("operator-min-watermark/upstreams=%d", u), mc.Config{Bound: 0}, oparams{ups: u, msgs: k.Pick(4, 5)}, operatorBody)
	}
}

type oparams struct{ ups, msgs int }

var opSeq int

func operatorBody(c *mc.Ctx) {
	p := c.Param.(oparams)
	opSeq++
	base := fmt.Sprintf("/x%d", opSeq)
	root := dkvh.NewFS()
	storage.VerifRegisterFS("memory://"+base, func(loc string) storage.FileSystem {
		return root.WithWorkingDir(strings.TrimPrefix(loc, "memory://"))
	})
	defer storage.VerifRegisterFS("memory://"+base, nil)
	h := oph.NewHandler()
	job := oph.NewJob(h)
	srIDs := make([]string, p.ups)
	for i := range srIDs {
		srIDs[i] = fmt.Sprintf("sr%d", i)
	}
	// model
	reported := map[string]int64{} // unix seconds; absent = not reported yet (counts as the epoch)
	eff := func() int64 {
		m := int64(1 << 40)
		for _, id := range srIDs {
			v, ok := reported[id]
			if !ok {
				v = 0
			}
			m = min(m, v)
		}
		return m
	}
	type told struct {
		applied int
		want    int64
		what    string
	}
	var checks []told
	var errs []string
	pending := map[int64]bool{} // timers set and not yet due
	schedh.Run(c, schedh.Opts{MaxSteps: 6000, NoAdvanceAlt: true}, func() {
		ctx, cancel := context.WithCancel(context.Background())
		op := operator.NewOperator(operator.NewOperatorParams{ID: "op", UserHandler: h, Job: job, Clock: clocks.NewFrozenClock(), EventBatching: batching.EventBatcherParams{MaxSize: 1}})
		started := make(chan struct{})
		shim.Go(func() { op.Start(ctx); shim.Close(started) })
		shim.Recv(job.Registered)
		if err := op.HandleDeploy(ctx, &workerpb.DeployOperatorRequest{Operators: []*jobpb.NodeIdentity{{Id: "op"}}, SourceRunnerIds: srIDs, KeyGroupCount: 4, StorageLocation: "memory://" + base}, &embedded.RecordingSink{}); err != nil {
			panic(fmt.Sprintf("mc: harness: deploy: %v", err))
		}
		n := 0
		for step := 0; step < p.msgs; step++ {
			kinds := 4 // event, timer-setting event, watermark 2, watermark 5
			choice := c.Choose(1 + p.ups*kinds)
			if choice == 0 {
				break
			}
			sender := srIDs[(choice-1)/kinds]
			var err error
			switch (choice - 1) % kinds {
			case 0:
				id := fmt.Sprintf("e%d", n)
				n++
				c.Op("%s:event(%s)", sender, id)
				checks = append(checks, told{len(h.Applied), eff(), "event " + id})
				err = op.HandleEvent(ctx, sender, oph.Keyed("a", id, 1))
			case 1:
				id := fmt.Sprintf("T4:e%d", n)
				n++
				c.Op("%s:event(%s sets timer@4)", sender, id)
				checks = append(checks, told{len(h.Applied), eff(), "event " + id})
				if eff() < 4 {
					pending[4] = true
				}
				err = op.HandleEvent(ctx, sender, oph.Keyed("a", id, 1))
			default:
				w := []int64{2, 5}[(choice-1)%kinds-2]
				if prev, ok := reported[sender]; ok && prev > w {
					continue // a runner's watermark does not decrease
				}
				c.Op("%s:watermark(%d)", sender, w)
				reported[sender] = w
				before := len(h.Applied)
				err = op.HandleEvent(ctx, sender, oph.Watermark(w))
				// timers due at the new minimum must have fired exactly now, others must not
				fired := 0
				for _, a := range h.Applied[before:] {
					if a.Timer {
						fired++
						var secs int64
						fmt.Sscanf(a.ID, "timer@%d", &secs)
						if secs > eff() {
							errs = append(errs, fmt.Sprintf("timer@%d fired although the minimum of the upstream watermarks is %d (reported: %v)", secs, eff(), reported))
						}
						if a.WM != time.Unix(eff(), 0).UnixNano() {
							errs = append(errs, fmt.Sprintf("the handler was told watermark %v with timer@%d, the minimum over upstreams is %ds", time.Unix(0, a.WM).UTC(), secs, eff()))
						}
					}
				}
				if pending[4] && eff() >= 4 {
					if fired == 0 {
						errs = append(errs, fmt.Sprintf("timer@4 did not fire although every upstream reported a watermark >= 4 (reported: %v)", reported))
					}
					delete(pending, 4)
				}
			}
			if err != nil {
				errs = append(errs, err.Error())
			}
		}
		cancel()
		shim.Recv(started)
	})
	if len(h.Failures) > 0 {
		c.FailSig("handler-state", "handler saw wrong state: %v", h.Failures)
	}
	if len(errs) > 0 {
		sig := "operator-watermark"
		if strings.Contains(errs[0], "fired although") {
			sig = "timer-fired-above-minimum"
		}
		c.FailSig(sig, "%s", strings.Join(errs, "; "))
	}
	for _, t := range checks {
		if t.applied >= len(h.Applied) {
			c.Failf("%s was not applied", t.what)
		}
		got := h.Applied[t.applied].WM
		if want := time.Unix(t.want, 0).UnixNano(); got != want {
			c.FailSig("handler-told-wrong-watermark", "with %s the handler was told watermark %v; the minimum over the upstream watermarks (a runner that has not reported counts as the epoch) is %v", t.what, time.Unix(0, got).UTC(), time.Unix(t.want, 0).UTC())
		}
	}
	c.Nontrivial(fmt.Sprint(p.ups, c.Ops()))
}
