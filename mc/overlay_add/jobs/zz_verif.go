package jobs

// Added by the verification overlay (never part of /repo): canonical dump of the job's state
// for explicit-state searches.

import (
	"fmt"
	"strings"
)

func (j *Job) VerifDump() string {
	var ops, srs []string
	for _, k := range j.registry.operators.Keys() {
		ops = append(ops, k)
	}
	for _, k := range j.registry.runners.Keys() {
		srs = append(srs, k)
	}
	return fmt.Sprintf("status=%s assembly={%s} registry{ops=%s srs=%s} store{%s}", j.status, j.assembly.String(), strings.Join(ops, ","), strings.Join(srs, ","), j.snapshotStore.VerifDump())
}

// VerifStatus returns the job status as text.
func (j *Job) VerifStatus() string { return j.status.String() }
