package mc

import (
	"bufio"
	"bytes"
	"encoding/json"
	"fmt"
	"io"
	"os"
	"os/exec"
	"path/filepath"
	"sort"
	"strings"
	"sync"
	"sync/atomic"
	"time"
)

// Process sharding: the coordinator expands the top of the choice tree in-process until
// enough open subtrees exist, then hands each subtree (a choice prefix) to a worker process
// running the same binary, which explores it exhaustively with a sequential DFS. Used where
// the code under test has process-global state (dkv task queues), needs a synctest bubble of
// its own, or may take the process down (panic on a background goroutine).

type shardReq struct {
	Prefix   []int   `json:"prefix"`
	Deadline float64 `json:"deadline"`
	Bound    int     `json:"bound"`
	Trace    bool    `json:"trace"`
	MaxViol  int     `json:"max_viol"`
	Single   bool    `json:"single"`    // run only the execution of Prefix and return its children
	MaxExecs int64   `json:"max_execs"` // hand the unexplored rest back (as Kids) after this many executions; 0 = no cap
}

type shardResp struct {
	Execs, Points, Pruned int64
	MaxDepth              int
	Notes                 map[string]int64
	Outcomes, Nontr       []uint64
	Samples               []string
	Violations, Known     []*Violation
	TimedOut              bool
	States                int
	Kids                  [][]int
	Recycle               bool // the worker asks to be replaced (memory hygiene)
}

// WorkerArgs is how a child process is started for a part: argv after the binary name.
type WorkerSpec struct {
	Args     []string // e.g. ["C07","quick","--worker","part name"]
	Procs    int      // number of worker processes
	Env      []string // extra environment
	Frontier int      // open subtrees wanted before handing out (default 8*Procs)
	// Chunk: a worker hands the unexplored rest of a subtree back after this many executions, so
	// that big subtrees are spread over all workers (default 400).
	Chunk int64
	// RemoteFrontier: the coordinator never runs the body itself (bodies that need a synctest
	// bubble); the top of the tree is expanded through a worker, one execution per request.
	RemoteFrontier bool
}

// workerSeen: the state keys a worker process has expanded so far, across the subtrees it was
// handed. A state pruned here was expanded with at least the same remaining budget below another
// prefix this process explored (or handed back to the coordinator as open prefixes, which are
// explored later): unless the run is cut short - and then it is reported as not exhaustive - its
// futures are covered.
var workerSeen = new(sync.Map)
var workerShm *shmSet
var shmSeq atomic.Int64

// subtree explores every execution below prefix sequentially.
func subtree(name string, cfg Config, param any, body func(*Ctx), req shardReq, trace func([]int)) *shardResp {
	resp := &shardResp{Notes: map[string]int64{}}
	outs, nontr := map[uint64]struct{}{}, map[uint64]struct{}{}
	e := &explorer{cfg: cfg, body: body, param: param, name: name, outcomes: newHashSet(), nontr: newHashSet(), seenExt: workerSeen, seenShm: workerShm}
	stack := []item{{prefix: req.Prefix}}
	for len(stack) > 0 {
		it := stack[len(stack)-1]
		stack = stack[:len(stack)-1]
		if trace != nil {
			trace(it.prefix)
		}
		c := e.runOne(it.prefix, true)
		if len(c.trail) < len(it.prefix) {
			panic(fmt.Sprintf("mc: NONDETERMINISM in %s: execution consumed %d choices, prefix has %d (ops: %s)", name, len(c.trail), len(it.prefix), strings.Join(c.ops, " ")))
		}
		if c.fail == nil {
			used := 0
			for i, p := range c.trail {
				if i >= len(it.prefix) {
					for alt := 1; alt < int(p.n); alt++ {
						if used+p.kind.cost(alt) > req.Bound {
							break
						}
						np := make([]int, i+1)
						for k := 0; k < i; k++ {
							np[k] = int(c.trail[k].pick)
						}
						np[i] = alt
						if req.Single {
							resp.Kids = append(resp.Kids, np)
						} else {
							stack = append(stack, item{prefix: np})
						}
					}
				}
				used += p.kind.cost(int(p.pick))
			}
		}
		resp.Execs++
		resp.Points += int64(len(c.trail))
		resp.MaxDepth = max(resp.MaxDepth, len(c.trail))
		if c.pruned {
			resp.Pruned++
		}
		for _, n := range c.notes {
			resp.Notes[n]++
		}
		if c.out != "" {
			outs[h64(c.out)] = struct{}{}
		}
		for _, k := range c.nontr {
			hk := h64(k)
			if _, ok := nontr[hk]; !ok {
				nontr[hk] = struct{}{}
				if len(resp.Samples) < 2 && len(c.ops) > 0 {
					resp.Samples = append(resp.Samples, strings.Join(c.ops, " "))
				}
			}
		}
		if c.fail != nil {
			sig := c.fail.Sig
			if sig == "" {
				sig = c.fail.Msg
			}
			v := &Violation{Part: name, Choices: c.choices(), Ops: c.ops, Msg: c.fail.Msg, Sig: sig, Stack: c.fail.Stack}
			if cfg.IsKnown != nil && cfg.IsKnown(sig) {
				dup := false
				for _, kv := range resp.Known {
					dup = dup || kv.Sig == sig
				}
				if !dup {
					resp.Known = append(resp.Known, v)
				}
			} else {
				resp.Violations = append(resp.Violations, v)
				if len(resp.Violations) >= req.MaxViol {
					break
				}
			}
		}
		if req.Deadline > 0 && resp.Execs%16 == 0 && Wall() > req.Deadline {
			resp.TimedOut = true
			break
		}
		if req.MaxExecs > 0 && resp.Execs >= req.MaxExecs && len(stack) > 0 {
			for _, it := range stack {
				resp.Kids = append(resp.Kids, it.prefix)
			}
			break
		}
	}
	for k := range outs {
		resp.Outcomes = append(resp.Outcomes, k)
	}
	for k := range nontr {
		resp.Nontr = append(resp.Nontr, k)
	}
	resp.States = int(e.nseen.Load())
	return resp
}

// ServeWorker is the child side: read requests from stdin, answer on stdout. Never returns.
func ServeWorker(name string, cfg Config, param any, body func(*Ctx)) {
	in := bufio.NewReaderSize(os.Stdin, 1<<20)
	out := bufio.NewWriter(os.Stdout)
	var served int64
	// a worker that holds too much live memory (code under test that leaks per execution) is
	// replaced after the subtree it is working on
	if cfg.WorkerHeapCap > 0 {
		StartMemoryGuard(cfg.WorkerHeapCap, false)
	}
	if p := os.Getenv("MC_SEEN_SHM"); p != "" && cfg.SharedSeen > 0 {
		s, err := openShmSet(p, cfg.SharedSeen, false)
		if err != nil {
			fmt.Fprintf(os.Stderr, "worker: shared state table: %v\n", err)
			os.Exit(3)
		}
		workerShm = s
	}
	if !cfg.NoDetCheck && os.Getenv("MC_DETCHECK") == "1" {
		e := &explorer{cfg: cfg, body: body, param: param, name: name, outcomes: newHashSet(), nontr: newHashSet()}
		a, b := e.runOne(nil, false), e.runOne(nil, false)
		if fmt.Sprint(a.trail, a.ops, a.out, a.fail == nil) != fmt.Sprint(b.trail, b.ops, b.out, b.fail == nil) {
			fmt.Fprintf(os.Stderr, "mc: NONDETERMINISM in %s: default execution not reproducible\n A: %v | %s | %v\n B: %v | %s | %v\n", name, a.ops, a.out, a.trail, b.ops, b.out, b.trail)
			os.Exit(4)
		}
	}
	for {
		line, err := in.ReadBytes('\n')
		if err != nil {
			os.Exit(0)
		}
		var req shardReq
		if err := json.Unmarshal(line, &req); err != nil {
			fmt.Fprintf(os.Stderr, "worker: bad request: %v\n", err)
			os.Exit(3)
		}
		var trace func([]int)
		if req.Trace {
			trace = func(p []int) {
				b, _ := json.Marshal(p)
				out.WriteString("T ")
				out.Write(b)
				out.WriteByte('\n')
				out.Flush()
			}
		}
		resp := subtree(name, cfg, param, body, req, trace)
		served += resp.Execs
		if (cfg.RecycleAfter > 0 && served >= cfg.RecycleAfter) || OverMemory.Load() {
			resp.Recycle = true
		}
		b, _ := json.Marshal(resp)
		out.WriteString("R ")
		out.Write(b)
		out.WriteByte('\n')
		out.Flush()
	}
}

type workerProc struct {
	watchdog atomic.Bool // killed because the deadline (plus grace) passed
	cmd      *exec.Cmd
	stdin    io.WriteCloser
	stdout   *bufio.Reader
	stderr   *bytes.Buffer
}

func startWorker(spec WorkerSpec) (*workerProc, error) {
	cmd := exec.Command(os.Args[0], spec.Args...)
	cmd.Env = append(os.Environ(), spec.Env...)
	stdin, err := cmd.StdinPipe()
	if err != nil {
		return nil, err
	}
	stdout, err := cmd.StdoutPipe()
	if err != nil {
		return nil, err
	}
	w := &workerProc{cmd: cmd, stdin: stdin, stdout: bufio.NewReaderSize(stdout, 1<<20), stderr: &bytes.Buffer{}}
	cmd.Stderr = w.stderr
	if err := cmd.Start(); err != nil {
		return nil, err
	}
	return w, nil
}

func (w *workerProc) kill() {
	w.stdin.Close()
	w.cmd.Process.Kill()
	w.cmd.Wait()
}

// run sends one request; returns the response, or the last traced prefix and an error text
// when the worker died.
func (w *workerProc) run(req shardReq) (*shardResp, []int, string) {
	if req.Deadline > 0 {
		d := time.Duration((req.Deadline-Wall()+45)*1e9) * time.Nanosecond
		t := time.AfterFunc(max(d, 45*time.Second), func() { w.watchdog.Store(true); w.cmd.Process.Kill() })
		defer t.Stop()
	}
	b, _ := json.Marshal(req)
	if _, err := w.stdin.Write(append(b, '\n')); err != nil {
		return nil, nil, "write to worker: " + err.Error()
	}
	var last []int
	for {
		line, err := w.stdout.ReadBytes('\n')
		if err != nil {
			w.cmd.Wait()
			tail := w.stderr.String()
			if len(tail) > 3000 {
				tail = tail[:1500] + "\n...\n" + tail[len(tail)-1500:]
			}
			return nil, last, "worker process died: " + err.Error() + "\n" + tail
		}
		switch {
		case bytes.HasPrefix(line, []byte("T ")):
			last = nil
			json.Unmarshal(line[2:], &last)
		case bytes.HasPrefix(line, []byte("R ")):
			resp := &shardResp{}
			if err := json.Unmarshal(line[2:], resp); err != nil {
				return nil, last, "bad worker response: " + err.Error()
			}
			return resp, last, ""
		}
	}
}

// ExploreSharded runs the exploration with worker processes.
func ExploreSharded(name string, cfg Config, spec WorkerSpec, param any, body func(*Ctx)) *Result {
	if cfg.MaxViolations <= 0 {
		cfg.MaxViolations = 6
	}
	if cfg.MaxSamples <= 0 {
		cfg.MaxSamples = 4
	}
	if spec.Procs <= 0 {
		spec.Procs = 1
	}
	if spec.Frontier <= 0 {
		spec.Frontier = 8 * spec.Procs
	}
	if spec.Chunk <= 0 {
		spec.Chunk = 400
	}
	start := Wall()
	res := &Result{Name: name, Notes: map[string]int64{}, Bound: cfg.Bound}
	outs, nontr := map[uint64]struct{}{}, map[uint64]struct{}{}
	timedOut := false
	var internal []string
	var shm *shmSet
	if cfg.SharedSeen > 0 {
		dir := os.Getenv("VERIF_TMP")
		if dir == "" {
			dir = "/dev/shm"
		}
		path := filepath.Join(dir, fmt.Sprintf("verif-seen-%d-%d", os.Getpid(), shmSeq.Add(1)))
		if s, err := openShmSet(path, cfg.SharedSeen, true); err == nil {
			shm = s
			spec.Env = append(append([]string{}, spec.Env...), "MC_SEEN_SHM="+path)
			defer os.Remove(path)
		}
	}

	merge := func(r *shardResp) {
		res.Execs += r.Execs
		res.Points += r.Points
		res.Pruned += r.Pruned
		res.States += r.States
		res.MaxDepth = max(res.MaxDepth, r.MaxDepth)
		for n, v := range r.Notes {
			res.Notes[n] += v
		}
		for _, h := range r.Outcomes {
			outs[h] = struct{}{}
		}
		for _, h := range r.Nontr {
			nontr[h] = struct{}{}
		}
		for _, s := range r.Samples {
			if len(res.Samples) < cfg.MaxSamples {
				res.Samples = append(res.Samples, s)
			}
		}
		res.Violations = append(res.Violations, r.Violations...)
		for _, kv := range r.Known {
			dup := false
			for _, x := range res.Known {
				dup = dup || x.Sig == kv.Sig
			}
			if !dup {
				res.Known = append(res.Known, kv)
			}
		}
		timedOut = timedOut || r.TimedOut
	}

	// determinism check + frontier expansion in-process (breadth-first)
	if !cfg.NoDetCheck && !spec.RemoteFrontier {
		e := &explorer{cfg: cfg, body: body, param: param, name: name, outcomes: newHashSet(), nontr: newHashSet()}
		a, b := e.runOne(nil, false), e.runOne(nil, false)
		if fmt.Sprint(a.trail, a.ops, a.out, a.fail == nil) != fmt.Sprint(b.trail, b.ops, b.out, b.fail == nil) {
			panic(fmt.Sprintf("mc: NONDETERMINISM in %s: default execution not reproducible\n A: %v | %s\n B: %v | %s", name, a.ops, a.out, b.ops, b.out))
		}
	}
	queue := []item{{}}
	if spec.RemoteFrontier {
		fspec := spec
		fspec.Env = append(append([]string{}, spec.Env...), "MC_DETCHECK=1")
		fw, err := startWorker(fspec)
		if err != nil {
			panic("mc: start frontier worker: " + err.Error())
		}
		for len(queue) > 0 && len(queue) < spec.Frontier && len(res.Violations) < cfg.MaxViolations {
			it := queue[0]
			queue = queue[1:]
			resp, _, errText := fw.run(shardReq{Prefix: it.prefix, Deadline: cfg.Deadline, Bound: cfg.Bound, MaxViol: cfg.MaxViolations, Single: true})
			if resp == nil {
				fw.kill()
				panic("mc: worker failure in " + name + " (frontier): " + errText)
			}
			for _, kid := range resp.Kids {
				queue = append(queue, item{prefix: kid})
			}
			merge(resp)
		}
		fw.kill()
	}
	for !spec.RemoteFrontier && len(queue) > 0 && len(queue) < spec.Frontier && len(res.Violations) < cfg.MaxViolations {
		it := queue[0]
		queue = queue[1:]
		// run exactly this execution (a subtree request that does not descend): emulate by
		// running the body here and generating the children ourselves
		e := &explorer{cfg: cfg, body: body, param: param, name: name, outcomes: newHashSet(), nontr: newHashSet()}
		c := e.runOne(it.prefix, false)
		r := &shardResp{Execs: 1, Points: int64(len(c.trail)), MaxDepth: len(c.trail), Notes: map[string]int64{}}
		for _, n := range c.notes {
			r.Notes[n]++
		}
		if c.out != "" {
			r.Outcomes = append(r.Outcomes, h64(c.out))
		}
		for _, k := range c.nontr {
			r.Nontr = append(r.Nontr, h64(k))
		}
		if c.fail != nil {
			sig := c.fail.Sig
			if sig == "" {
				sig = c.fail.Msg
			}
			v := &Violation{Part: name, Choices: c.choices(), Ops: c.ops, Msg: c.fail.Msg, Sig: sig, Stack: c.fail.Stack}
			if cfg.IsKnown != nil && cfg.IsKnown(sig) {
				r.Known = append(r.Known, v)
			} else {
				r.Violations = append(r.Violations, v)
			}
		} else {
			used := 0
			for i, p := range c.trail {
				if i >= len(it.prefix) {
					for alt := 1; alt < int(p.n); alt++ {
						if used+p.kind.cost(alt) > cfg.Bound {
							break
						}
						np := make([]int, i+1)
						for k := 0; k < i; k++ {
							np[k] = int(c.trail[k].pick)
						}
						np[i] = alt
						queue = append(queue, item{prefix: np})
					}
				}
				used += p.kind.cost(int(p.pick))
			}
		}
		merge(r)
	}

	if len(queue) > 0 && len(res.Violations) < cfg.MaxViolations {
		var mu sync.Mutex
		cond := sync.NewCond(&mu)
		busy := 0
		stop := false
		var wg sync.WaitGroup
		for p := 0; p < spec.Procs; p++ {
			wg.Add(1)
			go func() {
				defer wg.Done()
				var w *workerProc
				defer func() {
					if w != nil {
						w.kill()
					}
				}()
				for {
					mu.Lock()
					for len(queue) == 0 && busy > 0 && !stop {
						cond.Wait()
					}
					if stop || len(queue) == 0 {
						mu.Unlock()
						cond.Broadcast()
						return
					}
					if cfg.Deadline > 0 && Wall() > cfg.Deadline {
						timedOut = true
						stop = true
						mu.Unlock()
						cond.Broadcast()
						return
					}
					it := queue[len(queue)-1]
					queue = queue[:len(queue)-1]
					busy++
					mu.Unlock()

					req := shardReq{Prefix: it.prefix, Deadline: cfg.Deadline, Bound: cfg.Bound, MaxViol: cfg.MaxViolations, MaxExecs: spec.Chunk}
					var resp *shardResp
					var errText string
					var last []int
					for attempt := 0; attempt < 2; attempt++ {
						if w == nil {
							var err error
							if w, err = startWorker(spec); err != nil {
								errText = "start worker: " + err.Error()
								break
							}
						}
						req.Trace = attempt == 1
						resp, last, errText = w.run(req)
						if resp != nil {
							break
						}
						wd := w.watchdog.Load()
						w.kill()
						w = nil
						if wd { // hung or too slow: not a verdict, the subtree stays unexplored
							resp = &shardResp{TimedOut: true}
							fmt.Fprintf(os.Stderr, "[mc] %s: worker stopped by watchdog on prefix %v\n", name, it.prefix)
							break
						}
					}
					if resp != nil && resp.Recycle && w != nil {
						w.kill()
						w = nil
					}
					mu.Lock()
					busy--
					if resp != nil {
						merge(resp)
						for _, kid := range resp.Kids {
							queue = append(queue, item{prefix: kid})
						}
					} else if last != nil {
						// the process died while running the execution that starts with `last`
						res.Violations = append(res.Violations, &Violation{Part: name, Choices: last, Ops: []string{"(execution took the process down; replay to see its operations)"},
							Msg: "process died during this execution: " + errText, Sig: "process-died: " + firstLine(lastPanicLine(errText))})
					} else {
						internal = append(internal, errText)
						stop = true
					}
					if len(res.Violations) >= cfg.MaxViolations {
						stop = true
					}
					mu.Unlock()
					cond.Broadcast()
				}
			}()
		}
		wg.Wait()
	}
	if len(internal) > 0 {
		panic("mc: worker failure in " + name + ": " + internal[0])
	}
	res.Outcomes = len(outs)
	res.Nontrivial = len(nontr)
	if shm != nil {
		res.States = shm.len()
	}
	res.Exhaustive = !timedOut && len(res.Violations) < cfg.MaxViolations
	res.WallS = Wall() - start
	sort.Slice(res.Violations, func(i, j int) bool { return len(res.Violations[i].Choices) < len(res.Violations[j].Choices) })
	sort.Strings(res.Samples)
	return res
}

func firstLine(s string) string {
	if i := strings.IndexByte(s, '\n'); i >= 0 {
		return s[:i]
	}
	return s
}

func lastPanicLine(s string) string {
	for _, l := range strings.Split(s, "\n") {
		if strings.HasPrefix(l, "panic:") || strings.HasPrefix(l, "fatal error:") {
			return l
		}
	}
	return s
}
