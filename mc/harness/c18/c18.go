// Package c18: compaction never changes what the database contains (DESIGN §5 C18).
// Explicit-state search over level layouts of the real sst.LevelList / sst.Compactor.
package c18

import (
	"bytes"
	"fmt"
	"hash/fnv"
	"os"
	"runtime"
	"runtime/debug"
	"slices"
	"sort"
	"strings"
	"sync"
	"sync/atomic"

	"reduction.dev/reduction/dkv/kv"
	"reduction.dev/reduction/dkv/sst"
	"reduction.dev/reduction/dkv/storage"
	"verif.local/mc/harness/c07"
	"verif.local/mc/mc"
	"verif.local/mc/report"
)

type setting struct {
	trigger, ampl int
	smallest      int64
	target        int64
	levels        int
}

type params struct {
	depth    int
	settings []setting
}

var keys = []string{"a", "b", "c"}

type ent struct {
	k, v []byte
	seq  uint64
	del  bool
}

func (e *ent) Key() []byte    { return e.k }
func (e *ent) Value() []byte  { return e.v }
func (e *ent) IsDelete() bool { return e.del }
func (e *ent) SeqNum() uint64 { return e.seq }

// images: memtable images flushed into level 0: every 1-key image and every 2-key image over
// {a,b,c} with put/delete per key.
type imgEntry struct {
	key string
	del bool
}

var images = [][]imgEntry{
	{{"a", false}}, {{"a", true}}, {{"b", false}}, {{"b", true}},
	{{"a", false}, {"c", false}}, {{"a", true}, {"b", false}}, {{"b", false}, {"c", true}},
}

type failure struct{ sig, msg string }

type world struct {
	c    *mc.Ctx // nil in BFS mode: failures are raised as panic(failure)
	set  setting
	fs   storage.FileSystem
	tw   *sst.TableWriter
	comp *sst.Compactor
	ll   *sst.LevelList
	ref  map[string]*ent // latest version per key (tombstones kept)
	seq  uint64
	pend *sst.ChangeSet
}

func tableEntries(w *world, t *sst.Table) []kv.Entry {
	var err error
	var out []kv.Entry
	for e := range t.ScanPrefix(nil, &err) {
		out = append(out, e)
	}
	if err != nil {
		w.failSig("", "scan of table %s: %v", t.Name(), err)
	}
	return out
}

func (w *world) levelsOf() [][]*sst.Table {
	var out [][]*sst.Table
	for level := range w.ll.DescendLevels() {
		out = append(out, slices.Collect(level.AllTables()))
	}
	return out
}

// check evaluates the invariants in the current state.
func (w *world) failSig(sig, format string, a ...any) {
	msg := fmt.Sprintf(format, a...)
	if sig == "" {
		sig = msg
	}
	panic(failure{sig, msg})
}

func (w *world) check(what string) {
	c := w
	if w.c != nil && w.c.Replay {
		w.c.Op("    state: %s", w.stateKey())
	}
	levels := w.levelsOf()
	// layout: levels >= 1 sorted by key range and disjoint
	for li := 1; li < len(levels); li++ {
		var prevEnd []byte
		for ti, t := range levels[li] {
			d := t.Document()
			if bytes.Compare([]byte(d.StartKey), []byte(d.EndKey)) > 0 {
				c.failSig("", "%s: L%d table %d has start %q > end %q", what, li, ti, d.StartKey, d.EndKey)
			}
			if ti > 0 && bytes.Compare(prevEnd, []byte(d.StartKey)) >= 0 {
				c.failSig("level-overlap", "%s: L%d is not sorted/disjoint: table %d starts at %q, previous ends at %q", what, li, ti, d.StartKey, prevEnd)
			}
			prevEnd = []byte(d.EndKey)
			if len(tableEntries(w, t)) == 0 {
				c.failSig("empty-table", "%s: L%d holds an empty table (%s)", what, li, t.Name())
			}
		}
	}
	for _, k := range keys {
		// versions in search order must have strictly decreasing sequence numbers
		var versions []uint64
		for li, tables := range levels {
			order := tables
			if li == 0 {
				order = slices.Clone(tables)
				slices.Reverse(order) // level 0 is searched newest table first
			}
			hits := 0
			for _, t := range order {
				if !t.RangeContainsKey([]byte(k)) {
					continue
				}
				e, err := t.Get([]byte(k))
				if err == kv.ErrNotFound {
					continue
				}
				if err != nil {
					c.failSig("", "%s: table Get(%q): %v", what, k, err)
				}
				versions = append(versions, e.SeqNum())
				hits++
			}
			if li >= 1 && hits > 1 {
				c.failSig("level-overlap", "%s: key %q found in %d tables of L%d", what, k, hits, li)
			}
		}
		for i := 1; i < len(versions); i++ {
			if versions[i] >= versions[i-1] {
				c.failSig("newer-under-older", "%s: key %q: versions in search order have sequence numbers %v (newer data beneath older)", what, k, versions)
			}
		}
		// point lookup = reference
		e, err := w.ll.Get([]byte(k))
		want := w.ref[k]
		switch {
		case err != nil && err != kv.ErrNotFound:
			c.failSig("", "%s: Get(%q): %v", what, k, err)
		case err == kv.ErrNotFound:
			// a tombstone that a compaction into the base level dropped is not a change of contents
			if want != nil && !want.del {
				c.failSig("get-lost", "%s: Get(%q) = NotFound, want %s", what, k, estr(want))
			}
		default:
			if want == nil || e.SeqNum() != want.seq || e.IsDelete() != want.del || !bytes.Equal(e.Value(), want.v) {
				c.failSig("get-wrong", "%s: Get(%q) = %s, want %s", what, k, estr(e), estr(want))
			}
		}
	}
	for _, p := range []string{"", "a", "b", "c", "d"} {
		var got, wantS []string
		var err error
		for e := range w.ll.ScanPrefix([]byte(p), &err) {
			got = append(got, estr(e))
		}
		if err != nil {
			c.failSig("", "%s: ScanPrefix(%q): %v", what, p, err)
		}
		for _, k := range keys {
			if e := w.ref[k]; e != nil && !e.del && strings.HasPrefix(k, p) {
				wantS = append(wantS, estr(e))
			}
		}
		if !slices.Equal(got, wantS) {
			c.failSig("scan-wrong", "%s: ScanPrefix(%q) = %v, want %v", what, p, got, wantS)
		}
	}
}

func estr(e kv.Entry) string {
	if e == nil || (fmt.Sprintf("%T", e) == "*c18.ent" && e.(*ent) == nil) {
		return "<none>"
	}
	if e.IsDelete() {
		return fmt.Sprintf("%s#%d:DEL", e.Key(), e.SeqNum())
	}
	return fmt.Sprintf("%s#%d=%s", e.Key(), e.SeqNum(), e.Value())
}

// stateKey canonicalises the state: sequence numbers replaced by their rank.
func (w *world) stateKey() string {
	levels := w.levelsOf()
	seqs := map[uint64]bool{}
	type tdesc struct {
		level int
		ents  []kv.Entry
		name  string
	}
	var all []tdesc
	for li, ts := range levels {
		for _, t := range ts {
			es := tableEntries(w, t)
			for _, e := range es {
				seqs[e.SeqNum()] = true
			}
			all = append(all, tdesc{li, es, t.Name()})
		}
	}
	var pendAdd []tdesc
	var pendRm []string
	if w.pend != nil {
		adds, rms := changeSetTables(w.pend)
		for _, a := range adds {
			es := tableEntries(w, a.Table)
			for _, e := range es {
				seqs[e.SeqNum()] = true
			}
			pendAdd = append(pendAdd, tdesc{a.LevelNum, es, a.Table.Name()})
		}
		for _, t := range rms {
			pendRm = append(pendRm, t.Name())
		}
	}
	var sorted []uint64
	for s := range seqs {
		sorted = append(sorted, s)
	}
	slices.Sort(sorted)
	rank := map[uint64]int{}
	for i, s := range sorted {
		rank[s] = i
	}
	render := func(d tdesc) string {
		var sb strings.Builder
		fmt.Fprintf(&sb, "L%d[", d.level)
		for _, e := range d.ents {
			if e.IsDelete() {
				fmt.Fprintf(&sb, "%s#%d- ", e.Key(), rank[e.SeqNum()])
			} else {
				fmt.Fprintf(&sb, "%s#%d ", e.Key(), rank[e.SeqNum()])
			}
		}
		sb.WriteString("]")
		return sb.String()
	}
	var sb strings.Builder
	fmt.Fprintf(&sb, "%+v|", w.set)
	names := map[string]string{}
	for _, d := range all {
		r := render(d)
		names[d.name] = r
		sb.WriteString(r)
	}
	fmt.Fprintf(&sb, "|cursor=%s|", compactorCursor(w.comp))
	for _, d := range pendAdd {
		sb.WriteString("+" + render(d))
	}
	var rm []string
	for _, n := range pendRm {
		rm = append(rm, names[n])
	}
	sort.Strings(rm)
	sb.WriteString("-" + strings.Join(rm, ","))
	return sb.String()
}

func compactorCursor(c *sst.Compactor) string {
	s := fmt.Sprintf("%+v", *c)
	if i := strings.Index(s, "minorCompactionLevel:"); i >= 0 {
		return strings.TrimRight(s[i+len("minorCompactionLevel:"):], "}")
	}
	return s
}

func (w *world) flush(img []imgEntry) {
	var es []*ent
	for _, ie := range img {
		w.seq++
		e := &ent{k: []byte(ie.key), seq: w.seq, del: ie.del}
		if !ie.del {
			e.v = []byte(fmt.Sprintf("v%d", w.seq))
		}
		es = append(es, e)
		w.ref[ie.key] = e
	}
	t, err := w.tw.Write(func(yield func(kv.Entry) bool) {
		for _, e := range es {
			if !yield(e) {
				return
			}
		}
	})
	if err != nil {
		w.failSig("", "flush write: %v", err)
	}
	cs := &sst.ChangeSet{}
	cs.AddTables(0, t)
	w.ll = w.ll.NewWithChangeSet(cs)
}

func (w *world) begin() bool {
	cs, err := w.comp.Compact(w.ll)
	if err != nil {
		w.failSig("", "Compact: %v", err)
	}
	if cs == nil {
		return false
	}
	w.pend = cs
	return true
}

func (w *world) apply() {
	w.ll = w.ll.NewWithChangeSet(w.pend)
	w.pend = nil
}

func changeSetTables(cs *sst.ChangeSet) ([]sst.TableAddition, []*sst.Table) {
	return cs.VerifAdditions(), cs.VerifRemovals()
}

const maxL0 = 3 // flushes are disabled while level 0 (plus a pending change set's view) holds this many tables: keeps the space finite

func (w *world) clone() *world {
	n := *w
	cc := *w.comp
	n.comp = &cc
	n.ref = make(map[string]*ent, len(w.ref))
	for k, v := range w.ref {
		n.ref[k] = v
	}
	return &n
}

// events: 1..len(images) = flush image; len+1 = Compact begin; len+2 = Compact apply.
func nEvents() int { return len(images) + 2 }

func (w *world) enabled(ev int) bool {
	switch {
	case ev <= len(images):
		return w.ll.TableCounts()[0] < maxL0
	case ev == len(images)+1:
		return w.pend == nil
	default:
		return w.pend != nil
	}
}

// step applies event ev and checks the invariants; returns the rendered event.
func (w *world) step(ev int) string {
	switch {
	case ev <= len(images):
		img := images[ev-1]
		var sb []string
		for _, ie := range img {
			if ie.del {
				sb = append(sb, "del "+ie.key)
			} else {
				sb = append(sb, "put "+ie.key)
			}
		}
		w.flush(img)
		w.check("after flush")
		return "Flush{" + strings.Join(sb, ",") + "}"
	case ev == len(images)+1:
		if w.begin() {
			return "Compact:begin"
		}
		return "Compact=nil"
	default:
		w.apply()
		w.check("after compaction step")
		return "Compact:apply"
	}
}

// fixpoint: from (a clone of) this state compaction must reach nil, preserving contents.
func (w *world) fixpoint() {
	f := w.clone()
	if f.pend != nil {
		f.apply()
		f.check("after compaction step")
	}
	for i := 0; ; i++ {
		if i > 40 {
			f.failSig("no-fixpoint", "repeated Compact did not reach nil within 40 steps")
		}
		if !f.begin() {
			return
		}
		f.apply()
		f.check("after compaction step (to fixed point)")
	}
}

func newWorld(set setting) *world {
	fs := storage.NewMemoryFilesystem()
	tw := sst.NewTableWriter(fs, 0)
	return &world{set: set, fs: fs, tw: tw, ll: sst.NewEmptyLevelList(set.levels), ref: map[string]*ent{},
		comp: &sst.Compactor{TableWriter: tw, L0RunNumCompactionTrigger: set.trigger, MaxSizeAmplificationPercent: set.ampl,
			SmallestLevelSize: set.smallest, LevelSizeMultiplier: 10, TargetTableSize: set.target}}
}

func settings(thorough bool) []setting {
	var ss []setting
	for _, trig := range []int{1, 2, 3} {
		for _, ampl := range []int{0, 50, 200} {
			ss = append(ss, setting{trig, ampl, 4200, 1, 3})
			if thorough {
				ss = append(ss, setting{trig, ampl, 4200, 40, 3})
			}
		}
	}
	ss = append(ss, setting{2, 50, 4200, 80, 4}, setting{1, 200, 1, 1, 4}, setting{3, 0, 9000, 40, 4}, setting{2, 1000000, 1, 40, 4}, setting{1, 1000000, 1, 1, 3},
		// five and six levels (dkv.DB uses six): a major step writes into the base level and leaves the
		// middle levels empty, minor steps then work above a gap
		setting{1, 200, 1, 1, 5}, setting{2, 200, 1, 1, 6})
	return ss
}

// replayBody executes a recorded path: choices = [setting, event, event, ...] (0 = stop).
func replayBody(c *mc.Ctx) {
	ss := c.Param.([]setting)
	set := ss[c.Choose(len(ss))]
	c.Op("[trigger=%d ampl=%d%% smallest=%d target=%d levels=%d]", set.trigger, set.ampl, set.smallest, set.target, set.levels)
	w := newWorld(set)
	w.c = c
	defer func() {
		if r := recover(); r != nil {
			if f, ok := r.(failure); ok {
				c.FailSig(f.sig, "%s", f.msg)
			}
			panic(r)
		}
	}()
	for {
		ev := c.Choose(nEvents() + 1)
		if ev == 0 {
			break
		}
		if !w.enabled(ev) {
			c.Op("(event %d not enabled)", ev)
			continue
		}
		c.Op(w.step(ev))
	}
	c.Op("compaction to fixed point")
	w.fixpoint()
}

type node struct {
	w    *world
	path []int
}

func Run(k *report.Check) {
	k.Rule = "real-database part: histories over three keys on a real dkv.DB in which the creation of the n-th table file is held back, so that a flush lands inside a compaction step (c07.HeldOne); reads must show the latest writes throughout and after the release. Layout part: explicit-state breadth-first search over level layouts of the real sst.LevelList/Compactor: events = flush of a memtable image (seven 1- and 2-key put/delete images over {a,b,c}, fresh sequence numbers) into level 0 (at most 3 level-0 tables), Compact begin (change set computed on the current snapshot), Compact apply (flushes may land in between, as in db.go); compactor settings enumerated (trigger 1..3, amplification 0/50/200/inf %, target table size 1/2/4 entries, 3-6 levels, level size limit of one or two tables). States are cloned (level lists are immutable, the compactor is copied by value), canonicalised (sequence numbers rank-normalised; table contents per level; compactor cursor; pending change set) and deduplicated; invariants are evaluated on every transition and from every new state compaction is run to its fixed point on a clone. non-trivial = distinct states with tables in at least two levels or a multi-table sorted level"
	k.Assumptions = []string{"rank-normalising sequence numbers merges only states with equal futures: the code only compares sequence numbers", "MemoryFilesystem; tables stay reachable from queued states, so cleanup-driven deletion (C09's subject) cannot interfere", "depth-bounded: the breadth-first search stops at the stated depth or when the time budget ends (then exhaustive=false and the last completed depth is reported)"}
	k.Budget(180, 1200)
	ss := settings(k.Thorough())
	maxDepth := k.Pick(7, 14)
	name := fmt.Sprintf("layouts-bfs/maxdepth=%d", maxDepth)
	if on, _ := k.Replaying(); on {
		k.Explore(name, mc.Config{}, ss, replayBody)
		return
	}
	// the real database: a flush landing inside a compaction step (the creation of one table file is
	// held back), see c07.HeldOne
	k.ExploreProc(fmt.Sprintf("real-db/one-table-held,d=%d", k.Pick(4, 5)), mc.Config{Deadline: k.Within(0.3)}, c07.HeldOneParams(k.Pick(4, 5)), c07.HeldOne)
	debug.SetMemoryLimit(28 << 30)
	res := bfs(k, name, ss, maxDepth)
	k.AddResult(res)
	k.Extra["bfs_depth_completed"] = depthDone
	k.Extra["max_level0_tables"] = maxL0
}

var depthDone int

// maxFrontier bounds the memory of the breadth-first search (about 20 kB per queued state).
const maxFrontier = 300000

func bfs(k *report.Check, name string, ss []setting, maxDepth int) *mc.Result {
	start := mc.Wall()
	res := &mc.Result{Name: name, Notes: map[string]int64{}, Exhaustive: true}
	var mu sync.Mutex
	seen := map[uint64]struct{}{}
	nontr := map[uint64]struct{}{}
	hash := func(s string) uint64 {
		h := fnv.New64a()
		h.Write([]byte(s))
		return h.Sum64()
	}
	var frontier []*node
	for i, set := range ss {
		w := newWorld(set)
		seen[hash(w.stateKey())] = struct{}{}
		frontier = append(frontier, &node{w, []int{i}})
	}
	render := func(path []int) []string {
		// re-execute the path to render it (cheap, only for samples and violations)
		var ops []string
		func() {
			defer func() { recover() }()
			w := newWorld(ss[path[0]])
			ops = append(ops, fmt.Sprintf("[%+v]", ss[path[0]]))
			for _, ev := range path[1:] {
				ops = append(ops, w.step(ev))
			}
		}()
		return ops
	}
	for depth := 1; depth <= maxDepth && len(frontier) > 0; depth++ {
		if len(frontier) > maxFrontier {
			// every queued state holds its tables in memory: a larger frontier is not expanded
			res.Exhaustive = false
			res.Notes["frontier_states_not_expanded_memory_cap"] = int64(len(frontier))
			break
		}
		var next []*node
		var wg sync.WaitGroup
		idx := int64(-1)
		stop := false
		for wk := 0; wk < min(k.Workers, 8); wk++ { // allocator contention: more threads are slower
			wg.Add(1)
			go func() {
				defer wg.Done()
				for {
					i := int(atomic.AddInt64(&idx, 1))
					if i >= len(frontier) {
						return
					}
					mu.Lock()
					s := stop
					mu.Unlock()
					if s {
						return
					}
					n := frontier[i]
					for ev := 1; ev <= nEvents(); ev++ {
						if !n.w.enabled(ev) {
							continue
						}
						path := append(slices.Clone(n.path), ev)
						var fail *failure
						var succ *world
						var key string
						func() {
							defer func() {
								if r := recover(); r != nil {
									if f, ok := r.(failure); ok {
										fail = &f
										return
									}
									fail = &failure{"panic", fmt.Sprintf("panic: %v\n%s", r, debug.Stack())}
								}
							}()
							succ = n.w.clone()
							flushedWhilePending := succ.pend != nil && ev <= len(images)
							succ.step(ev)
							key = succ.stateKey()
							mu.Lock()
							res.Points++
							if flushedWhilePending {
								res.Notes["flush_landed_between_compact_begin_and_apply"]++
							}
							_, dup := seen[hash(key)]
							if !dup {
								seen[hash(key)] = struct{}{}
							}
							mu.Unlock()
							if dup {
								succ = nil
								return
							}
							succ.fixpoint()
						}()
						mu.Lock()
						if fail != nil {
							res.Violations = append(res.Violations, &mc.Violation{Part: name, Choices: append(path, 0), Ops: render(path), Msg: fail.msg, Sig: fail.sig})
							if len(res.Violations) >= 6 {
								stop = true
							}
						} else if succ != nil {
							next = append(next, &node{succ, path})
							counts := succ.ll.TableCounts()
							nz, multi := 0, false
							for li, c := range counts {
								if c > 0 {
									nz++
								}
								if li >= 1 && c >= 2 {
									multi = true
								}
							}
							if nz >= 2 || multi {
								nontr[hash(key)] = struct{}{}
								if multi {
									res.Notes["states_with_multi_table_sorted_level"]++
								}
								if nz >= 3 {
									res.Notes["states_with_three_populated_levels"]++
								}
								if len(res.Samples) < 4 && len(nontr)%97 == 1 {
									res.Samples = append(res.Samples, strings.Join(render(path), " "))
								}
							}
						}
						mu.Unlock()
					}
					if i%64 == 0 && k.Deadline() > 0 && mc.Wall() > k.Deadline() {
						mu.Lock()
						stop = true
						res.Exhaustive = false
						mu.Unlock()
					}
					if i%4096 == 0 {
						var ms runtime.MemStats
						runtime.ReadMemStats(&ms)
						if ms.HeapAlloc > 20<<30 {
							runtime.GC() // the garbage collector runs lazily (GC percent 400): measure live data
							runtime.ReadMemStats(&ms)
						}
						if ms.HeapAlloc > 20<<30 {
							mu.Lock()
							stop = true
							res.Exhaustive = false
							res.Notes["stopped_at_heap_cap_gb"] = int64(ms.HeapAlloc >> 30)
							mu.Unlock()
						}
					}
				}
			}()
		}
		wg.Wait()
		if stop {
			if len(res.Violations) > 0 {
				res.Exhaustive = false
			}
			break
		}
		depthDone = depth
		res.MaxDepth = depth
		frontier = next
		fmt.Fprintf(os.Stderr, "[C18] depth %d: %d new states, %d states total, %d transitions\n", depth, len(next), len(seen), res.Points)
	}
	res.States = len(seen)
	res.Execs = res.Points
	res.Nontrivial = len(nontr)
	res.Outcomes = len(seen)
	res.WallS = mc.Wall() - start
	return res
}
