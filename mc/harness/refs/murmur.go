// Package refs: independent reference functions used by oracles.
package refs

import (
	"encoding/binary"
	"math/bits"
)

// Murmur3 is an independent MurmurHash3_x86_32 (Appleby's reference algorithm).
func Murmur3(data []byte, seed uint32) uint32 {
	const c1, c2 = 0xcc9e2d51, 0x1b873593
	h := seed
	n := len(data) / 4
	for i := 0; i < n; i++ {
		k := binary.LittleEndian.Uint32(data[i*4:])
		k *= c1
		k = bits.RotateLeft32(k, 15)
		k *= c2
		h ^= k
		h = bits.RotateLeft32(h, 13)
		h = h*5 + 0xe6546b64
	}
	tail := data[n*4:]
	var k uint32
	for i := len(tail) - 1; i >= 0; i-- {
		k = k<<8 | uint32(tail[i])
	}
	if len(tail) > 0 {
		k *= c1
		k = bits.RotateLeft32(k, 15)
		k *= c2
		h ^= k
	}
	h ^= uint32(len(data))
	h ^= h >> 16
	h *= 0x85ebca6b
	h ^= h >> 13
	h *= 0xc2b2ae35
	h ^= h >> 16
	return h
}

// OwnerIndex returns which of n operators owns key with g key groups: ranges are contiguous,
// the first g%n ranges hold one group more.
func OwnerIndex(key []byte, g, n int) int {
	kg := int(Murmur3(key, 0) % uint32(g))
	big, small := g%n, g/n
	if kg < big*(small+1) {
		return kg / (small + 1)
	}
	if small == 0 {
		return n - 1
	}
	return big + (kg-big*(small+1))/small
}
