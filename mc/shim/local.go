// Package shim is what instrumented repository code calls into. In pass-through mode
// (no scheduler active) every function behaves like the plain Go construct it replaces.
package shim

import "sync"

func getg() uintptr

// G returns an identifier of the calling goroutine (its g pointer).
func G() uintptr { return getg() }

var locals sync.Map // g -> *Local

// Local is per-goroutine harness state: lets in-process parallel explorations give the
// instrumented code under test per-execution answers (ranks, option tuning).
type Local struct {
	// Rank supplies zip-tree ranks; nil = deterministic global stream.
	Rank func() uint32
	// Tune, when set, adjusts dkv.DBOptions-like values by name.
	Tune map[string]uint64
}

// SetLocal installs l for the calling goroutine (nil removes it).
func SetLocal(l *Local) {
	if l == nil {
		locals.Delete(getg())
		return
	}
	locals.Store(getg(), l)
}

// GetLocal returns the calling goroutine's Local or nil.
func GetLocal() *Local {
	if v, ok := locals.Load(getg()); ok {
		return v.(*Local)
	}
	return nil
}

var globalTune sync.Map // name -> uint64

// SetGlobalTune sets a process-wide tuning value (used when the code under test runs on
// goroutines the harness does not own).
func SetGlobalTune(name string, v uint64) { globalTune.Store(name, v) }

// ClearGlobalTune removes all process-wide tuning values.
func ClearGlobalTune() { globalTune.Range(func(k, _ any) bool { globalTune.Delete(k); return true }) }

// TuneLookup returns the tuning value for name: goroutine-local first, then global.
func TuneLookup(name string) (uint64, bool) {
	if l := GetLocal(); l != nil && l.Tune != nil {
		if v, ok := l.Tune[name]; ok {
			return v, true
		}
	}
	if v, ok := globalTune.Load(name); ok {
		return v.(uint64), true
	}
	return 0, false
}

// TuneValue is TuneLookup with 0 for "not set".
func TuneValue(name string) uint64 { v, _ := TuneLookup(name); return v }
