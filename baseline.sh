#!/bin/bash
# Runs the repository's pinned test suite with all verification hooks OFF (the hooks are a
# go build -overlay used only by ./check; nothing in /repo is guarded or changed).
cd /repo || exit 1
unset GOEXPERIMENT GOTOOLCHAIN GOSUMDB
export GOFLAGS=-mod=mod GOPROXY=off
go test -json -vet=off -count=1 -timeout 25m ./... 
