package bg

// Added by the verification overlay (never part of /repo).

// VerifIdle reports whether no task of the queue is queued or running.
func (tq *TaskQueue) VerifIdle() bool {
	if len(tq.c) > 0 {
		return false
	}
	if tq.mu.TryLock() {
		tq.mu.Unlock()
		return len(tq.c) == 0
	}
	return false
}
