package c04

import "verif.local/mc/report"

// operatorPart registers C11's operator-side parts (minimum over upstreams): added below.
func operatorPart(k *report.Check) {}

// splitterParts registers C16's split-assignment parts: added below.
func splitterParts(k *report.Check) {}
