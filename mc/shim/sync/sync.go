// Package sync replaces the standard sync package in instrumented repository code.
package sync

import (
	rsync "sync"

	"verif.local/mc/shim"
)

type Locker = rsync.Locker
type Map = rsync.Map
type Pool = rsync.Pool

type Mutex struct{ m rsync.Mutex }

func (m *Mutex) Lock() {
	if shim.S == nil {
		m.m.Lock()
		return
	}
	shim.Point("lock")
	for !m.m.TryLock() {
		shim.WaitOn(m)
	}
}

// Unlock has a scheduling point on either side: before (the critical section may be preempted
// at its end) and after (code that goes on to use shared data after giving up the lock must
// meet the threads it has just admitted).
func (m *Mutex) Unlock() {
	shim.Point("unlock")
	m.m.Unlock()
	shim.Released(m)
	shim.Point("unlocked")
}
func (m *Mutex) TryLock() bool { shim.Point("trylock"); return m.m.TryLock() }

type RWMutex struct{ m rsync.RWMutex }

func (m *RWMutex) Lock() {
	if shim.S == nil {
		m.m.Lock()
		return
	}
	shim.Point("wlock")
	for !m.m.TryLock() {
		shim.WaitOn(m)
	}
}
func (m *RWMutex) Unlock() {
	shim.Point("wunlock")
	m.m.Unlock()
	shim.Released(m)
	shim.Point("wunlocked")
}
func (m *RWMutex) RLock() {
	if shim.S == nil {
		m.m.RLock()
		return
	}
	shim.Point("rlock")
	for !m.m.TryRLock() {
		shim.WaitOn(m)
	}
}
func (m *RWMutex) RUnlock() { shim.Point("runlock"); m.m.RUnlock(); shim.Released(m) }

type WaitGroup struct{ w rsync.WaitGroup }

func (w *WaitGroup) Add(n int) { shim.Point("wg-add"); w.w.Add(n) }
func (w *WaitGroup) Done()     { shim.Point("wg-done"); w.w.Done() }
func (w *WaitGroup) Wait()     { shim.Point("wg-wait"); w.w.Wait(); shim.Point("wg-waited") }

type Once struct{ o rsync.Once }

func (o *Once) Do(f func()) { shim.Point("once"); o.o.Do(f) }

func (m *RWMutex) TryLock() bool  { shim.Point("trywlock"); return m.m.TryLock() }
func (m *RWMutex) TryRLock() bool { shim.Point("tryrlock"); return m.m.TryRLock() }

type rlocker RWMutex

func (r *rlocker) Lock()   { (*RWMutex)(r).RLock() }
func (r *rlocker) Unlock() { (*RWMutex)(r).RUnlock() }

// RLocker returns a Locker whose Lock and Unlock call RLock and RUnlock.
func (m *RWMutex) RLocker() Locker { return (*rlocker)(m) }

// Cond is a condition variable over the shim's locks: waiting parks the thread until the next
// Signal or Broadcast (a Signal wakes every waiter: callers of Wait loop on their condition).
type Cond struct {
	L   Locker
	c   *rsync.Cond
	mu  rsync.Mutex
	gen uint64
}

func NewCond(l Locker) *Cond { return &Cond{L: l, c: rsync.NewCond(l)} }

func (c *Cond) Wait() {
	if shim.S == nil {
		c.c.Wait()
		return
	}
	c.mu.Lock()
	gen := c.gen
	c.mu.Unlock()
	c.L.Unlock()
	for {
		c.mu.Lock()
		moved := c.gen != gen
		c.mu.Unlock()
		if moved {
			break
		}
		shim.WaitOn(c)
	}
	c.L.Lock()
}

func (c *Cond) wake() {
	c.mu.Lock()
	c.gen++
	c.mu.Unlock()
	shim.Released(c)
}
func (c *Cond) Signal() {
	shim.Point("cond-signal")
	if shim.S == nil {
		c.c.Signal()
		return
	}
	c.wake()
}
func (c *Cond) Broadcast() {
	shim.Point("cond-broadcast")
	if shim.S == nil {
		c.c.Broadcast()
		return
	}
	c.wake()
}

func OnceFunc(f func()) func() {
	g := rsync.OnceFunc(f)
	return func() { shim.Point("once"); g() }
}
func OnceValue[T any](f func() T) func() T {
	g := rsync.OnceValue(f)
	return func() T { shim.Point("once"); return g() }
}
func OnceValues[T1, T2 any](f func() (T1, T2)) func() (T1, T2) {
	g := rsync.OnceValues(f)
	return func() (T1, T2) { shim.Point("once"); return g() }
}
