package sst

// Added by the verification overlay (never part of /repo): read access to a change set for
// the explicit-state search of C18.

func (cs *ChangeSet) VerifAdditions() []TableAddition { return cs.additions }
func (cs *ChangeSet) VerifRemovals() []*Table         { return cs.removals }
