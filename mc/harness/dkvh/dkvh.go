// Package dkvh: shared helpers for harnesses that drive a real dkv.DB: an instrumented,
// gateable file system, tiny option sets, a reference map and result comparison.
package dkvh

import (
	"fmt"
	"regexp"
	"sort"
	"strconv"
	"strings"
	"sync"

	"reduction.dev/reduction/dkv"
	"reduction.dev/reduction/dkv/kv"
	"reduction.dev/reduction/dkv/storage"
	"verif.local/mc/mc"
	"verif.local/mc/shim"
)

// FS wraps a MemoryFilesystem: records file events and can hold back background work by
// blocking the creation of table files (the first storage step of a flush or compaction).
type FS struct {
	*storage.MemoryFilesystem
	mu      sync.Mutex
	cond    *sync.Cond
	hold    bool
	Events  []string
	waiting int
}

func NewFS() *FS {
	f := &FS{MemoryFilesystem: storage.NewMemoryFilesystem()}
	f.cond = sync.NewCond(&f.mu)
	return f
}

// Hold closes (true) or opens (false) the gate for new table files.
func (f *FS) Hold(h bool) {
	f.mu.Lock()
	f.hold = h
	f.mu.Unlock()
	f.cond.Broadcast()
}

func (f *FS) New(path string) storage.File {
	if strings.HasSuffix(path, ".sst") {
		f.mu.Lock()
		f.waiting++
		for f.hold {
			f.cond.Wait()
		}
		f.waiting--
		f.mu.Unlock()
	}
	return f.MemoryFilesystem.New(path)
}

// Options is one tiny configuration of the database.
type Options struct {
	Mem, Table uint64
	L0         int
	Smallest   uint64
	Ampl       uint64
}

func (o Options) String() string {
	return fmt.Sprintf("mem=%d,table=%d,l0=%d,lvl=%d,ampl=%d", o.Mem, o.Table, o.L0, o.Smallest, o.Ampl)
}

// Configs: memtable of about 2 or 3 entries, tables of about 2 or 4 entries, L0 trigger 1 or
// 2, level size limit of about 1 or 2 tables (a table carries a 4 KB bloom block).
func Configs(thorough bool) []Options {
	var out []Options
	for _, mem := range []uint64{30, 50} {
		for _, tbl := range []uint64{40, 80} {
			for _, l0 := range []int{1, 2} {
				out = append(out, Options{Mem: mem, Table: tbl, L0: l0, Smallest: 4500, Ampl: 50})
			}
		}
	}
	out = append(out, Options{Mem: 30, Table: 40, L0: 3, Smallest: 4500, Ampl: 50}, Options{Mem: 30, Table: 80, L0: 4, Smallest: 9000, Ampl: 200})
	if thorough {
		out = append(out, Options{Mem: 30, Table: 40, L0: 2, Smallest: 9000, Ampl: 200},
			Options{Mem: 50, Table: 40, L0: 3, Smallest: 100, Ampl: 0},
			Options{Mem: 30, Table: 1, L0: 1, Smallest: 4500, Ampl: 50})
	}
	return out
}

// Tune installs the compactor tuning of o for databases created on this goroutine.
func Tune(o Options) {
	shim.SetLocal(&shim.Local{Tune: map[string]uint64{"SmallestLevelSize": o.Smallest, "MaxSizeAmplificationPercent": o.Ampl}})
}

// DBOptions returns the dkv options for o over fs.
func (o Options) DBOptions(fs storage.FileSystem) dkv.DBOptions {
	return dkv.DBOptions{FileSystem: fs, MemTableSize: o.Mem, TargetFileSize: o.Table, MaxWALSize: 1 << 20, L0TableNumCompactionTrigger: o.L0}
}

var memNum = regexp.MustCompile(`MemTables \(num: (\d+)\)`)

// SealedMemtables reports how many sealed memtables await their flush.
func SealedMemtables(db *dkv.DB) int {
	m := memNum.FindStringSubmatch(db.Diagnostics())
	if m == nil {
		return 0
	}
	n, _ := strconv.Atoi(m[1])
	return n - 1
}

// Ref is the reference model: a plain map.
type Ref map[string]string

func (r Ref) Clone() Ref {
	o := Ref{}
	for k, v := range r {
		o[k] = v
	}
	return o
}

func (r Ref) Scan(prefix string) []string {
	var ks []string
	for k := range r {
		if strings.HasPrefix(k, prefix) {
			ks = append(ks, k)
		}
	}
	sort.Strings(ks) // byte order of the raw keys
	out := make([]string, len(ks))
	for i, k := range ks {
		out[i] = fmt.Sprintf("%q=%s", k, r[k])
	}
	return out
}

func (r Ref) String() string { return fmt.Sprint(r.Scan("")) }

// CheckReads compares Get of every key and ScanPrefix of every prefix with the reference.
func CheckReads(c *mc.Ctx, what string, db *dkv.DB, ref Ref, keys, prefixes []string) {
	for _, k := range keys {
		e, err := db.Get([]byte(k))
		want, has := ref[k]
		switch {
		case err != nil && err != kv.ErrNotFound:
			c.Failf("%s: Get(%q) error: %v", what, k, err)
		case err == kv.ErrNotFound || e.IsDelete():
			if has {
				c.FailSig("get-lost:"+what, "%s: Get(%q) reports absent/deleted, latest write is %s", what, k, want)
			}
		default:
			if !has {
				c.FailSig("get-resurrected:"+what, "%s: Get(%q) = %s, but the key was deleted / never written", what, k, e.Value())
			} else if string(e.Value()) != want {
				c.FailSig("get-stale:"+what, "%s: Get(%q) = %s, latest write is %s", what, k, e.Value(), want)
			}
		}
	}
	for _, p := range prefixes {
		var got []string
		var err error
		for e := range db.ScanPrefix([]byte(p), &err) {
			got = append(got, fmt.Sprintf("%q=%s", e.Key(), e.Value()))
		}
		if err != nil {
			c.Failf("%s: ScanPrefix(%q) error: %v", what, p, err)
		}
		want := ref.Scan(p)
		if fmt.Sprint(got) != fmt.Sprint(want) {
			c.FailSig("scan-mismatch:"+what, "%s: ScanPrefix(%q) = %v, want %v", what, p, got, want)
		}
	}
}

var levelLine = regexp.MustCompile(`level (\d+), tables (\d+)`)

// Layout returns the number of sealed memtables and the table count per level.
func Layout(db *dkv.DB) (sealed int, levels []int) {
	d := db.Diagnostics()
	sealed = 0
	if m := memNum.FindStringSubmatch(d); m != nil {
		n, _ := strconv.Atoi(m[1])
		sealed = n - 1
	}
	for _, m := range levelLine.FindAllStringSubmatch(d, -1) {
		n, _ := strconv.Atoi(m[2])
		levels = append(levels, n)
	}
	return
}

// NoteLayout bumps anti-vacuity counters describing the layout reads were served from.
func NoteLayout(c *mc.Ctx, db *dkv.DB) string {
	sealed, levels := Layout(db)
	if sealed > 0 {
		c.Note("reads_with_sealed_memtable")
	}
	if len(levels) > 0 && levels[0] >= 2 {
		c.Note("reads_with_2plus_L0_tables")
	}
	deep := 0
	for i, n := range levels {
		if i >= 1 && n > 0 {
			c.Note("reads_with_tables_below_L0")
			deep++
		}
		if i >= 1 && n >= 2 {
			c.Note("reads_with_multi_table_sorted_level")
		}
		if i >= 2 && n > 0 {
			c.Note("reads_with_tables_in_L2_or_deeper")
		}
	}
	return fmt.Sprint(sealed, levels)
}
