package c12

import (
	"fmt"
	"sort"
	"strings"
	"time"

	gproto "google.golang.org/protobuf/proto"
	"reduction.dev/reduction/connectors"
	"reduction.dev/reduction/proto/jobpb"
	"reduction.dev/reduction/proto/snapshotpb"
	"reduction.dev/reduction/storage/snapshots"
	"verif.local/mc/harness/jobh"
	"verif.local/mc/harness/schedh"
	"verif.local/mc/mc"
	"verif.local/mc/shim"
)

// Concurrent part: the acknowledgements of one checkpoint, a duplicate acknowledgement and a
// racing CreateCheckpoint arrive on threads of their own (as RPC handlers do); the splitter's
// Checkpoint() takes time (a scheduling point). Every schedule within the delay bound.

type slowSplitter struct {
	connectors.UnimplementedSourceSplitter
	calls int
}

func (s *slowSplitter) IsSourceSplitter() {}
func (s *slowSplitter) Checkpoint() []byte {
	shim.Point("splitter-checkpoint")
	s.calls++
	return []byte("splitter-state")
}

type cparams struct{ nOps int }

func concurrentBody(c *mc.Ctx) {
	p := c.Param.(cparams)
	ops := []string{"o1", "o2"}[:p.nOps]
	srs := []string{"s1"}
	dupKind := c.Choose(3) // 0: duplicate runner ack, 1: duplicate operator ack, 2: none
	racingCreate := c.Choose(2) == 1
	c.Op("[operators=%v; duplicate=%s; racing CreateCheckpoint=%v]", ops, []string{"runner ack", "operator ack", "none"}[dupKind], racingCreate)
	loc := jobh.NewMemLoc()
	for _, o := range ops {
		loc.Files[o+"/checkpoints"] = []byte(`{"checkpoints":[{"id":1,"wals":[],"levels":[]}]}`)
	}
	events := make(chan string, 16)
	retained := make(chan []uint64, 16)
	store := snapshots.NewStore(&snapshots.NewStoreParams{FileStore: loc, SavepointsPath: "savepoints", CheckpointsPath: "checkpoints",
		CheckpointEvents: events, RetainedCheckpointsUpdated: retained})
	sp := &slowSplitter{}
	store.RegisterSourceSplitter(sp)
	var racedID uint64
	var racedErr error
	var ackErrs []string
	second := false
	schedh.Run(c, schedh.Opts{MaxSteps: 3000, NoAdvanceAlt: true}, func() {
		id, err := store.CreateCheckpoint(ops, srs)
		if err != nil || id != 1 {
			panic(fmt.Sprintf("mc: harness: first CreateCheckpoint = %d, %v", id, err))
		}
		opAck := func(o string, n uint64) error {
			return store.AddOperatorSnapshot(&snapshotpb.OperatorCheckpoint{CheckpointId: n, OperatorId: o, DkvFileUri: o + "/checkpoints"})
		}
		srAck := func(s string, n uint64) error {
			return store.AddSourceSnapshot(&jobpb.SourceRunnerCheckpointCompleteRequest{CheckpointId: n, SourceRunnerId: s, SplitStates: [][]byte{[]byte(fmt.Sprintf("%s:%d", s, n))}})
		}
		done := make(chan struct{}, 8)
		n := 0
		spawn := func(f func()) {
			n++
			shim.Go(func() { f(); shim.Send(done, func() { done <- struct{}{} }) })
		}
		// of an acknowledgement and its duplicate, whichever comes second may be rejected as late
		accepted := map[string]int{}
		note := func(who string, err error) {
			if err == nil {
				accepted[who]++
			}
		}
		for _, o := range ops {
			spawn(func() { note(o, opAck(o, 1)) })
		}
		spawn(func() { note("s1", srAck("s1", 1)) })
		switch dupKind {
		case 0:
			spawn(func() { note("s1", srAck("s1", 1)) })
		case 1:
			spawn(func() { note(ops[0], opAck(ops[0], 1)) })
		}
		defer func() {
			for _, who := range append([]string{"s1"}, ops...) {
				if accepted[who] == 0 {
					ackErrs = append(ackErrs, fmt.Sprintf("no acknowledgement of %s for checkpoint 1 was accepted", who))
				}
			}
		}()
		if racingCreate {
			spawn(func() { racedID, racedErr = store.CreateCheckpoint(ops, srs) })
		}
		for i := 0; i < n; i++ {
			shim.Recv(done)
		}
		shim.Sleep(time.Second) // quiescence: every publication goroutine has finished
		// a checkpoint that the racing CreateCheckpoint started must be completable
		if racingCreate && racedErr == nil && racedID != 0 {
			second = true
			for _, o := range ops {
				if err := opAck(o, racedID); err != nil {
					ackErrs = append(ackErrs, fmt.Sprintf("ack for checkpoint %d: %v", racedID, err))
				}
			}
			if err := srAck("s1", racedID); err != nil {
				ackErrs = append(ackErrs, fmt.Sprintf("ack for checkpoint %d: %v", racedID, err))
			}
			shim.Sleep(time.Second)
		}
	})
	var published []string
	for len(events) > 0 {
		published = append(published, <-events)
	}
	var notified [][]uint64
	for len(retained) > 0 {
		notified = append(notified, <-retained)
	}
	c.Op("published %v; retained notifications %v; splitter checkpoints %d; racing create -> (%d, %v)", published, notified, sp.calls, racedID, racedErr)
	if len(ackErrs) > 0 {
		c.FailSig("ack-rejected", "an acknowledgement of the current assembly for the pending checkpoint was rejected: %v", ackErrs)
	}
	want := 1
	if second {
		want = 2
	}
	if len(published) != want {
		c.FailSig("publication-count", "%d publications for %d completed checkpoints: %v", len(published), want, published)
	}
	if sp.calls != want {
		c.FailSig("splitter-checkpointed-again", "the splitter was checkpointed %d times for %d completed checkpoints", sp.calls, want)
	}
	writes := map[string]int{}
	for _, op := range loc.Log {
		if strings.HasPrefix(op, "write ") {
			writes[op]++
		}
	}
	for op, n := range writes {
		if n > 1 {
			c.FailSig("published-twice", "%s happened %d times", op, n)
		}
	}
	newest := uint64(want)
	if second {
		newest = racedID
	}
	cur := store.CurrentCheckpoint()
	if cur == nil || cur.Id != newest {
		c.FailSig("current-not-newest", "CurrentCheckpoint = %v, newest completed checkpoint is %d", cur, newest)
	}
	path := "checkpoints/job-" + snapshots.VerifPathSegment(newest) + ".snapshot"
	data, err := loc.Read(path)
	if err != nil {
		c.FailSig("newest-snapshot-missing", "the snapshot file of the newest completed checkpoint %d does not exist (storage operations: %v)", newest, loc.Log)
	}
	var snap snapshotpb.JobCheckpoint
	if err := gproto.Unmarshal(data, &snap); err != nil {
		c.Failf("snapshot does not decode: %v", err)
	}
	var gotOps, gotSplits []string
	for _, oc := range snap.OperatorCheckpoints {
		gotOps = append(gotOps, oc.OperatorId)
	}
	for _, sc := range snap.SourceCheckpoints {
		for _, st := range sc.SplitStates {
			gotSplits = append(gotSplits, string(st))
		}
	}
	sort.Strings(gotOps)
	if fmt.Sprint(gotOps) != fmt.Sprint(ops) || fmt.Sprint(gotSplits) != fmt.Sprint([]string{fmt.Sprintf("s1:%d", newest)}) {
		c.FailSig("snapshot-content", "snapshot %d holds operators %v splits %v", newest, gotOps, gotSplits)
	}
	// after a restart the ids keep growing
	s2 := snapshots.NewStore(&snapshots.NewStoreParams{FileStore: loc, SavepointsPath: "savepoints", CheckpointsPath: "checkpoints"})
	if err := s2.LoadCheckpoint(); err != nil {
		c.Failf("LoadCheckpoint: %v", err)
	}
	if id, err := s2.CreateCheckpoint(ops, srs); err != nil || id <= newest {
		c.FailSig("id-not-increasing", "after a restart CreateCheckpoint = %d, %v; published ids reach %d", id, err, newest)
	}
	c.Outcome(fmt.Sprint(published, notified, racedID, racedErr != nil))
	c.Nontrivial(fmt.Sprint(p.nOps, dupKind, racingCreate, racedID, racedErr != nil, c.Used()))
}
