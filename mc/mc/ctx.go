// Package mc is the explorer core: an execution of a harness body is a pure function of a
// sequence of integer choices; the explorer enumerates all choice sequences whose
// accumulated deviation cost stays within a bound (DESIGN.md §2.1).
package mc

import (
	"fmt"
	"runtime/debug"
	"strings"
	"syscall"
)

// Kind of a choice point: how alternatives are charged against the deviation bound.
type Kind uint8

const (
	Free    Kind = iota // enumerated dimension: every alternative costs 0
	Deviate             // alternative 0 is the default; any other costs 1
	Delay               // alternative i costs i (delay bounding of the scheduler)
)

func (k Kind) cost(i int) int {
	switch k {
	case Deviate:
		if i > 0 {
			return 1
		}
	case Delay:
		return i
	}
	return 0
}

type point struct {
	n    int32
	pick int32
	kind Kind
}

// Failure is a property violation (or a panic of the code under test) in one execution.
type Failure struct {
	Msg string
	// Sig identifies the finding for matching against known_findings (defaults to Msg).
	Sig   string
	Stack string
}

type failSentinel struct{}

// Ctx is handed to the harness body for one execution.
type Ctx struct {
	prefix []int
	trail  []point
	used   int
	ops    []string
	notes  []string
	nontr  []string
	out    string
	fail   *Failure
	pr     pruneHook
	pruned bool
	// Replay is true when the body runs outside the explorer (./check --replay).
	Replay bool
	// Param is the part-level parameter object handed through by the harness.
	Param any
}

// Choose returns a value in [0,n). Alternatives cost nothing.
func (c *Ctx) Choose(n int) int { return c.choose(n, Free) }

// Deviate returns a value in [0,n); 0 is the default answer, anything else costs 1 deviation.
func (c *Ctx) Deviate(n int) int { return c.choose(n, Deviate) }

// DelayChoice returns a value in [0,n); alternative i costs i.
func (c *Ctx) DelayChoice(n int) int { return c.choose(n, Delay) }

func (c *Ctx) choose(n int, k Kind) int {
	if n <= 0 {
		panic(fmt.Sprintf("mc: Choose(%d)", n))
	}
	i := len(c.trail)
	pick := 0
	if i < len(c.prefix) {
		pick = c.prefix[i]
		if pick >= n {
			panic(fmt.Sprintf("mc: NONDETERMINISM: replayed choice %d out of range %d at point %d (ops so far: %s)", pick, n, i, strings.Join(c.ops, " ")))
		}
	}
	c.used += k.cost(pick)
	c.trail = append(c.trail, point{n: int32(n), pick: int32(pick), kind: k})
	return pick
}

// Op appends a rendered operation to the human-readable trace of this execution.
func (c *Ctx) Op(format string, a ...any) {
	if len(a) == 0 {
		c.ops = append(c.ops, format)
	} else {
		c.ops = append(c.ops, fmt.Sprintf(format, a...))
	}
}

// Ops returns the rendered operations so far.
func (c *Ctx) Ops() []string { return c.ops }

// Note bumps an anti-vacuity counter (counted once per execution per name).
func (c *Ctx) Note(name string) {
	for _, n := range c.notes {
		if n == name {
			return
		}
	}
	c.notes = append(c.notes, name)
}

// Nontrivial registers a case key that counts toward distinct_nontrivial.
func (c *Ctx) Nontrivial(key string) { c.nontr = append(c.nontr, key) }

// Outcome sets the canonical outcome of the execution (distinct outcomes are counted).
func (c *Ctx) Outcome(s string) { c.out = s }

// Failf records a violation and ends the execution.
func (c *Ctx) Failf(format string, a ...any) {
	c.fail = &Failure{Msg: fmt.Sprintf(format, a...)}
	panic(failSentinel{})
}

// FailSig is Failf with an explicit signature for known-finding matching.
func (c *Ctx) FailSig(sig, format string, a ...any) {
	c.fail = &Failure{Msg: fmt.Sprintf(format, a...), Sig: sig}
	panic(failSentinel{})
}

// Fresh reports whether the execution has left its replayed prefix: everything before was
// executed (and checked) identically by the parent execution, so harnesses may skip
// re-checking oracles until Fresh is true. Always true in replay mode.
func (c *Ctx) Fresh() bool { return c.Replay || len(c.trail) >= len(c.prefix) }

// Used is the deviation cost spent so far.
func (c *Ctx) Used() int { return c.used }

// Choices returns the choice sequence so far (debugging aid).
func (c *Ctx) Choices() []int { return c.choices() }

func (c *Ctx) choices() []int {
	out := make([]int, len(c.trail))
	for i, p := range c.trail {
		out[i] = int(p.pick)
	}
	return out
}

// runBody executes body, converting Failf and panics of the code under test into c.fail.
func runBody(c *Ctx, body func(*Ctx)) {
	defer func() {
		if r := recover(); r != nil {
			if _, ok := r.(failSentinel); ok {
				return
			}
			msg := fmt.Sprint(r)
			if strings.HasPrefix(msg, "mc: ") {
				panic(r) // internal error of the machinery: never a verdict
			}
			c.fail = &Failure{Msg: "panic: " + msg, Stack: string(debug.Stack())}
		}
	}()
	body(c)
}

// Wall returns wall-clock seconds (raw syscall: time.Now is fake inside a synctest bubble).
func Wall() float64 {
	var tv syscall.Timeval
	syscall.Gettimeofday(&tv)
	return float64(tv.Sec) + float64(tv.Usec)/1e6
}
