// Package report turns exploration results into the interface of MANIFEST.json:
// evidence files, VIOLATION / KNOWN-FINDING lines, replay files and the exit status.
package report

import (
	"bufio"
	"crypto/sha1"
	"encoding/json"
	"fmt"
	"os"
	"os/exec"
	"path/filepath"
	"regexp"
	"runtime"
	"sort"
	"strconv"
	"strings"
	"testing/synctest"
	"time"

	"verif.local/mc/mc"
)

var VerifDir = envOr("VERIF", "/verif")

// OutDir is where evidence and replay files go: VerifDir, unless a scratch evaluation (a check
// run against a copy of the repository, REPO=... VERIF_OUT=...) keeps them apart.
var OutDir = envOr("VERIF_OUT", VerifDir)

func envOr(k, d string) string {
	if v := os.Getenv(k); v != "" {
		return v
	}
	return d
}

type known struct {
	prop string
	re   *regexp.Regexp
	what string
}

// Replay is the on-disk form of a violation.
type Replay struct {
	Property string   `json:"property"`
	Tier     string   `json:"tier"`
	Part     string   `json:"part"`
	Choices  []int    `json:"choices"`
	Ops      []string `json:"ops"`
	Msg      string   `json:"msg"`
	Sig      string   `json:"sig"`
	Stack    string   `json:"stack,omitempty"`
}

// Check accumulates the parts of one property's check.
type Check struct {
	ID, Tier, Level string
	Seed            int
	Rule            string
	Assumptions     []string
	Extra           map[string]any
	Workers         int
	watchdog        bool
	AtExit          func()

	start     float64
	deadline  float64
	parts     []*mc.Result
	knowns    []known
	replay    *Replay
	replayed  bool
	worker    string // non-empty: this process is a worker for that part
	partsLeft int    // > 0: parts still to come (for fair shares of the remaining budget)
	only      string // non-empty: this process runs just that part for a parent check process ...
	resOut    string // ... and writes its result there
	sched     bool   // the part being explored needs a synctest bubble
	internal  []string
	knownHit  map[string]string
}

// New creates the check context. args: [tier] [--replay file].
func New(id, level string, args []string) *Check {
	k := &Check{ID: id, Level: level, Tier: envOr("VERIF_TIER", "quick"), Extra: map[string]any{}, start: mc.Wall(), knownHit: map[string]string{}}
	k.Seed, _ = strconv.Atoi(os.Getenv("VERIF_SEED"))
	k.Workers = runtime.NumCPU()
	if v, err := strconv.Atoi(os.Getenv("VERIF_WORKERS")); err == nil && v > 0 {
		k.Workers = v
	}
	for i := 0; i < len(args); i++ {
		switch a := args[i]; a {
		case "quick", "thorough":
			k.Tier = a
		case "--worker":
			i++
			k.worker = args[i]
		case "--only":
			i++
			k.only = args[i]
		case "--result-out":
			i++
			k.resOut = args[i]
		case "--replay":
			i++
			data, err := os.ReadFile(args[i])
			if err != nil {
				fatal("read replay: %v", err)
			}
			k.replay = &Replay{}
			if err := json.Unmarshal(data, k.replay); err != nil {
				fatal("parse replay: %v", err)
			}
			if k.replay.Tier != "" {
				k.Tier = k.replay.Tier
			}
		default:
			fatal("unknown argument %q", a)
		}
	}
	k.loadKnown()
	return k
}

func fatal(format string, a ...any) {
	fmt.Fprintf(os.Stderr, "INTERNAL-ERROR: "+format+"\n", a...)
	os.Exit(3)
}

// Thorough reports whether the thorough tier runs.
func (k *Check) Thorough() bool { return k.Tier == "thorough" }

// Pick returns q in the quick tier and t in the thorough tier.
func (k *Check) Pick(q, t int) int {
	if k.Thorough() {
		return t
	}
	return q
}

// Budget sets the wall-clock budget (seconds) for the whole check, per tier.
func (k *Check) Budget(quick, thorough float64) {
	b := quick
	if k.Thorough() {
		b = thorough
	}
	if v, err := strconv.ParseFloat(os.Getenv("VERIF_BUDGET"), 64); err == nil && v > 0 {
		b = v
	}
	k.deadline = k.start + b
	// last resort: a part that never returns (a body blocked for good outside the scheduler, a
	// coordinator waiting for a worker that will not answer) must not keep the check running for
	// ever. Long after every internal deadline has passed the run is ended with what it has, as a
	// capped run (exhaustive:false) - never on a run that behaves, which ends well within the budget.
	if k.worker == "" && k.replay == nil && k.only == "" && !k.watchdog {
		k.watchdog = true
		limit := time.Duration((2*b + 300) * float64(time.Second))
		go func() {
			time.Sleep(limit)
			fmt.Fprintf(os.Stderr, "INTERNAL: check %s has not finished %v after its start (budget %.0fs): a part is stuck; ending the run as not exhaustive\n", k.ID, limit, b)
			k.parts = append(k.parts, &mc.Result{Name: "stuck-part", Notes: map[string]int64{"a_part_did_not_terminate": 1}, Exhaustive: false})
			k.Finish()
			os.Exit(0)
		}()
	}
}

// Parts announces how many parts the check is going to run: every part started without a
// deadline of its own may then use at most an equal share of the budget that is left when it
// starts (what an early part does not use is left for the later ones).
func (k *Check) Parts(n int) { k.partsLeft = n }

// share returns the deadline of the next part and counts it.
func (k *Check) share(explicit float64) float64 {
	if k.only != "" {
		return 0 // a companion process runs one part: its whole budget is that part's share
	}
	d := explicit
	if d == 0 && k.partsLeft > 1 {
		d = k.Within(1 / float64(k.partsLeft))
	}
	if k.partsLeft > 0 {
		k.partsLeft--
	}
	return d
}

// Within is the deadline for a part that may use at most frac of the budget that is left.
func (k *Check) Within(frac float64) float64 {
	now := mc.Wall()
	return now + (k.deadline-now)*frac
}

// Deadline is the absolute wall-clock second at which explorations stop cleanly.
func (k *Check) Deadline() float64 { return k.deadline }

func (k *Check) loadKnown() {
	f, err := os.Open(filepath.Join(VerifDir, "known_findings.txt"))
	if err != nil {
		return
	}
	defer f.Close()
	sc := bufio.NewScanner(f)
	for sc.Scan() {
		line := strings.TrimSpace(sc.Text())
		// known: property=<id> sig=/<regexp>/ <what fails>
		if !strings.HasPrefix(line, "known:") {
			continue
		}
		rest := strings.TrimSpace(strings.TrimPrefix(line, "known:"))
		m := regexp.MustCompile(`^property=(\S+)\s+sig=/(.*?)/\s+(.*)$`).FindStringSubmatch(rest)
		if m == nil {
			fatal("malformed known_findings line: %s", line)
		}
		if m[1] != k.ID {
			continue
		}
		k.knowns = append(k.knowns, known{prop: m[1], re: regexp.MustCompile(m[2]), what: m[3]})
	}
}

func (k *Check) matchKnown(sig string) *known {
	for i := range k.knowns {
		if k.knowns[i].re.MatchString(sig) {
			return &k.knowns[i]
		}
	}
	return nil
}

// Explore runs one named part (or replays it when --replay names it).
func (k *Check) Explore(name string, cfg mc.Config, param any, body func(*mc.Ctx)) *mc.Result {
	if k.only != "" && k.only != name {
		return &mc.Result{Name: name, Notes: map[string]int64{}}
	}
	if k.worker != "" {
		return &mc.Result{Name: name, Notes: map[string]int64{}}
	}
	if k.replay != nil {
		if k.replay.Part != name {
			return &mc.Result{Name: name, Notes: map[string]int64{}}
		}
		k.replayed = true
		ops, fail := mc.ReplayOne(param, body, k.replay.Choices)
		fmt.Printf("replay %s part=%s\n", k.ID, name)
		for i, o := range ops {
			fmt.Printf("  %3d  %s\n", i, o)
		}
		if fail != nil {
			fmt.Printf("FAILS: %s\n", fail.Msg)
			if fail.Stack != "" {
				fmt.Println(fail.Stack)
			}
			fmt.Printf("VIOLATION property=%s replay=%s\n", k.ID, "(replayed)")
			os.Exit(1)
		}
		fmt.Println("PASSES")
		os.Exit(0)
	}
	if cfg.Workers == 0 {
		cfg.Workers = k.Workers
	}
	cfg.Deadline = k.share(cfg.Deadline)
	if cfg.Deadline == 0 {
		cfg.Deadline = k.deadline
	}
	if cfg.Deadline > 0 && mc.Wall() > cfg.Deadline {
		r := &mc.Result{Name: name, Notes: map[string]int64{}, Exhaustive: false, Bound: cfg.Bound}
		k.parts = append(k.parts, r)
		return r
	}
	cfg.IsKnown = func(sig string) bool { return k.matchKnown(sig) != nil }
	r := mc.Explore(name, cfg, param, body)
	k.parts = append(k.parts, r)
	fmt.Fprintf(os.Stderr, "[%s] %-40s execs=%-9d points=%-10d outcomes=%-7d nontrivial=%-7d states=%-7d viol=%d known=%d exhaustive=%v %.1fs\n",
		k.ID, name, r.Execs, r.Points, r.Outcomes, r.Nontrivial, r.States, len(r.Violations), len(r.Known), r.Exhaustive, r.WallS)
	return r
}

// ExploreProc is Explore with the subtrees explored by worker processes (for code with
// process-global state or that may take the process down).
//
// IsWorker reports whether this process is a worker process of a sharded exploration.
func (k *Check) IsWorker() bool { return k.worker != "" }

// ExploreProc: see above.
func (k *Check) ExploreProc(name string, cfg mc.Config, param any, body func(*mc.Ctx)) *mc.Result {
	if k.only != "" && k.only != name {
		return &mc.Result{Name: name, Notes: map[string]int64{}}
	}
	if k.replay != nil {
		return k.Explore(name, cfg, param, body)
	}
	cfg.IsKnown = func(sig string) bool { return k.matchKnown(sig) != nil }
	if k.worker != "" {
		if k.worker == name {
			mc.ServeWorker(name, cfg, param, body)
		}
		return &mc.Result{Name: name, Notes: map[string]int64{}}
	}
	cfg.Deadline = k.share(cfg.Deadline)
	if cfg.Deadline == 0 {
		cfg.Deadline = k.deadline
	}
	if cfg.Deadline > 0 && mc.Wall() > cfg.Deadline {
		r := &mc.Result{Name: name, Notes: map[string]int64{}, Exhaustive: false, Bound: cfg.Bound}
		k.parts = append(k.parts, r)
		return r
	}
	procs := cfg.Workers
	if procs == 0 {
		procs = k.Workers
	}
	spec := mc.WorkerSpec{Args: []string{k.ID, k.Tier, "--worker", name}, Procs: procs, Env: []string{"GOMAXPROCS=1"}, RemoteFrontier: k.sched}
	r := mc.ExploreSharded(name, cfg, spec, param, body)
	k.parts = append(k.parts, r)
	fmt.Fprintf(os.Stderr, "[%s] %-40s execs=%-9d points=%-10d outcomes=%-7d nontrivial=%-7d states=%-7d viol=%d known=%d exhaustive=%v %.1fs\n",
		k.ID, name, r.Execs, r.Points, r.Outcomes, r.Nontrivial, r.States, len(r.Violations), len(r.Known), r.Exhaustive, r.WallS)
	return r
}

// ExploreSched is ExploreProc for bodies that run the code under test under the cooperative
// scheduler: every process that executes the body does so inside one testing/synctest bubble
// and never leaves it (the coordinator expands the tree through a worker).
func (k *Check) ExploreSched(name string, cfg mc.Config, param any, body func(*mc.Ctx)) *mc.Result {
	if os.Getenv("VERIF_MODE") == "plain" {
		return k.companion(name, cfg)
	}
	k.sched = true
	defer func() { k.sched = false }()
	if cfg.RecycleAfter == 0 {
		cfg.RecycleAfter = 4000
	}
	if k.replay != nil {
		if k.replay.Part != name {
			return &mc.Result{Name: name, Notes: map[string]int64{}}
		}
		synctest.Run(func() { k.Explore(name, cfg, param, body) }) // Explore exits the process
		return nil
	}
	if k.worker == name {
		cfg.IsKnown = func(sig string) bool { return k.matchKnown(sig) != nil }
		synctest.Run(func() { mc.ServeWorker(name, cfg, param, body) })
	}
	return k.ExploreProc(name, cfg, param, body)
}

// companion runs a scheduler part of a check whose other parts need the uninstrumented build:
// the instrumented build of the same check binary explores just that part and hands back its
// result. (Replays of such a part are routed to the instrumented binary by ./check.)
func (k *Check) companion(name string, cfg mc.Config) *mc.Result {
	empty := &mc.Result{Name: name, Notes: map[string]int64{}}
	if k.replay != nil || k.worker != "" || (k.only != "" && k.only != name) {
		return empty
	}
	bin := os.Getenv("VERIF_SCHED_BIN")
	if bin == "" {
		fatal("part %q needs the instrumented build but VERIF_SCHED_BIN is not set", name)
	}
	dl := k.share(cfg.Deadline)
	if dl == 0 {
		dl = k.deadline
	}
	remaining := dl - mc.Wall()
	if remaining < 2 {
		empty.Exhaustive = false
		k.AddResult(empty)
		return empty
	}
	f, err := os.CreateTemp("", "mcheck-part-*.json")
	if err != nil {
		fatal("companion: %v", err)
	}
	f.Close()
	defer os.Remove(f.Name())
	cmd := exec.Command(bin, k.ID, k.Tier, "--only", name, "--result-out", f.Name())
	cmd.Env = append(os.Environ(), "VERIF_MODE=sched", fmt.Sprintf("VERIF_BUDGET=%.0f", remaining))
	cmd.Stdout, cmd.Stderr = os.Stderr, os.Stderr
	if err := cmd.Run(); err != nil {
		fatal("companion for part %q: %v", name, err)
	}
	data, err := os.ReadFile(f.Name())
	if err != nil {
		fatal("companion result: %v", err)
	}
	r := &mc.Result{}
	if err := json.Unmarshal(data, r); err != nil {
		fatal("companion result: %v", err)
	}
	k.parts = append(k.parts, r)
	return r
}

// AddResult lets a harness with its own enumeration loop contribute a part.
func (k *Check) AddResult(r *mc.Result) {
	if r.Notes == nil {
		r.Notes = map[string]int64{}
	}
	k.parts = append(k.parts, r)
	fmt.Fprintf(os.Stderr, "[%s] %-40s execs=%-9d points=%-10d outcomes=%-7d nontrivial=%-7d states=%-7d viol=%d exhaustive=%v %.1fs\n",
		k.ID, r.Name, r.Execs, r.Points, r.Outcomes, r.Nontrivial, r.States, len(r.Violations), r.Exhaustive, r.WallS)
}

// Replaying reports whether the check runs in replay mode, and for which part.
func (k *Check) Replaying() (bool, string) {
	if k.replay == nil {
		return false, ""
	}
	return true, k.replay.Part
}

// Finish writes the evidence file, prints verdict lines and exits.
func (k *Check) Finish() {
	if k.AtExit != nil {
		k.AtExit()
	}
	if k.worker != "" {
		fatal("worker part %q not found in check %s", k.worker, k.ID)
	}
	if k.replay != nil {
		if !k.replayed {
			fatal("replay part %q not found in check %s", k.replay.Part, k.ID)
		}
		os.Exit(0)
	}
	if k.only != "" {
		for _, r := range k.parts {
			if r.Name == k.only {
				data, _ := json.Marshal(r)
				if err := os.WriteFile(k.resOut, data, 0o644); err != nil {
					fatal("write part result: %v", err)
				}
				os.Exit(0)
			}
		}
		fatal("part %q not found in check %s", k.only, k.ID)
	}
	var execs, points, pruned int64
	states, nontr, outcomes := 0, 0, 0
	exhaustive := true
	notes := map[string]int64{}
	var samples []any
	var partInfo []map[string]any
	var viols []*mc.Violation
	knownLines := map[string]bool{}
	for _, r := range k.parts {
		execs += r.Execs
		points += r.Points
		pruned += r.Pruned
		states += r.States
		nontr += r.Nontrivial
		outcomes += r.Outcomes
		exhaustive = exhaustive && r.Exhaustive
		for n, v := range r.Notes {
			notes[n] += v
		}
		for i, s := range r.Samples {
			if i < 2 && len(samples) < 12 {
				samples = append(samples, map[string]string{"part": r.Name, "case": s})
			}
		}
		partInfo = append(partInfo, map[string]any{"part": r.Name, "executions": r.Execs, "choice_points": r.Points, "max_depth": r.MaxDepth,
			"distinct_outcomes": r.Outcomes, "distinct_nontrivial": r.Nontrivial, "states": r.States, "pruned": r.Pruned,
			"bound": r.Bound, "exhaustive": r.Exhaustive, "wall_s": round(r.WallS)})
		viols = append(viols, r.Violations...)
		for _, v := range r.Known {
			if kn := k.matchKnown(v.Sig); kn != nil {
				knownLines[fmt.Sprintf("KNOWN-FINDING: property=%s %s", k.ID, kn.what)] = true
			}
		}
	}
	if len(samples) == 0 {
		for _, r := range k.parts {
			for _, s := range r.Samples {
				samples = append(samples, map[string]string{"part": r.Name, "case": s})
			}
		}
	}
	if len(samples) == 0 {
		samples = append(samples, "no sample recorded")
	}
	cov := map[string]any{
		"evaluations":                   execs,
		"distinct_nontrivial":           nontr,
		"distinct_outcomes":             outcomes,
		"rule":                          k.Rule,
		"samples":                       samples,
		"exhaustive":                    exhaustive,
		"choice_points":                 points,
		"anti_vacuity":                  notes,
		"parts":                         partInfo,
		"traces_validated_against_impl": execs,
	}
	if k.Level == "model_checking" {
		cov["states"] = states
		cov["transitions"] = points
		cov["pruned_revisits"] = pruned
	}
	for n, v := range k.Extra {
		cov[n] = v
	}
	ev := map[string]any{
		"property_id": k.ID, "tier": k.Tier, "seed": k.Seed, "level": k.Level, "coverage": cov,
		"assumptions": k.Assumptions, "wall_s": round(mc.Wall() - k.start), "violations": len(viols),
	}
	os.MkdirAll(filepath.Join(OutDir, "evidence"), 0o755)
	data, _ := json.MarshalIndent(ev, "", " ")
	if err := os.WriteFile(filepath.Join(OutDir, "evidence", k.ID+".json"), append(data, '\n'), 0o644); err != nil {
		fatal("write evidence: %v", err)
	}
	var kl []string
	for l := range knownLines {
		kl = append(kl, l)
	}
	sort.Strings(kl)
	for _, l := range kl {
		fmt.Println(l)
	}
	if len(viols) == 0 {
		fmt.Printf("OK property=%s tier=%s executions=%d distinct_nontrivial=%d exhaustive=%v wall=%.1fs\n", k.ID, k.Tier, execs, nontr, exhaustive, mc.Wall()-k.start)
		os.Exit(0)
	}
	os.MkdirAll(filepath.Join(OutDir, "replays"), 0o755)
	seen := map[string]bool{}
	for _, v := range viols {
		if seen[v.Part+v.Sig] {
			continue
		}
		seen[v.Part+v.Sig] = true
		rp := Replay{Property: k.ID, Tier: k.Tier, Part: v.Part, Choices: v.Choices, Ops: v.Ops, Msg: v.Msg, Sig: v.Sig, Stack: v.Stack}
		data, _ := json.MarshalIndent(rp, "", " ")
		sum := sha1.Sum(data)
		path := filepath.Join(OutDir, "replays", fmt.Sprintf("%s-%x.json", k.ID, sum[:5]))
		os.WriteFile(path, data, 0o644)
		fmt.Printf("  part=%s\n  ops: %s\n  %s\n", v.Part, strings.Join(v.Ops, " "), v.Msg)
		fmt.Printf("VIOLATION property=%s replay=%s\n", k.ID, path)
	}
	os.Exit(1)
}

func round(f float64) float64 { return float64(int(f*100)) / 100 }
