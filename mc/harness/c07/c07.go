// Package c07: DKV reads return the latest write at every moment (DESIGN §5 C07).
package c07

import (
	"fmt"

	"reduction.dev/reduction/dkv"
	"verif.local/mc/harness/dkvh"
	"verif.local/mc/mc"
	"verif.local/mc/report"
	"verif.local/mc/shim"
)

var keys = []string{"a", "ab", "b", "\x80\xff", "\x00"}
var prefixes = []string{"", "a", "ab", "b", "c", "\x80"}

type params struct {
	depth, nkeys int
	cfgs         []dkvh.Options
}

func Run(k *report.Check) {
	k.Rule = "schedule tier: four designated colliding histories (overwrite across a rotation, delete of a flushed key, three level-0 tables, a multi-table sorted level) with the foreground thread reading every key and scanning after every write while the real flush and compaction goroutines run under the cooperative scheduler, every schedule within the delay bound; history tier: every sequence of put/delete over colliding keys {a,ab,b,80ff,00} up to the depth, under every tiny option set, with background flush+compaction either completed or held back at every step (sync is an enumerated action); after every write Get of every key and ScanPrefix of every prefix are compared with a map. non-trivial = distinct (options, layout: sealed memtables / tables per level, reference contents) in which a read was served while an overwritten or deleted version of the key still existed in an older memtable or table"
	k.Assumptions = []string{"single writer (as in the operator)", "in the history tier background work is either quiescent or held back before its first storage operation; the schedule tier interleaves it at synchronisation operations", "MemoryFilesystem"}
	k.Budget(150, 1500)
	p := params{depth: k.Pick(5, 6), nkeys: k.Pick(4, 5), cfgs: dkvh.Configs(k.Thorough())}
	k.ExploreProc(fmt.Sprintf("history/d=%d,keys=%d", p.depth, p.nkeys), mc.Config{}, p, history)
	bound := k.Pick(1, 2)
	k.ExploreSched(fmt.Sprintf("schedule/delays<=%d", bound), mc.Config{Bound: bound}, sparams{}, schedBody)
}

func history(c *mc.Ctx) {
	p := c.Param.(params)
	o := p.cfgs[c.Choose(len(p.cfgs))]
	c.Op("[%s]", o)
	dkvh.Tune(o)
	defer shim.SetLocal(nil)
	fs := dkvh.NewFS()
	db := dkv.Open(o.DBOptions(fs), nil)
	ks := keys[:p.nkeys]
	ref := dkvh.Ref{}
	held := false
	shadowed := false // some key has an older version in a sealed memtable or table
	writes := map[string]int{}
	sync := func(label string) {
		c.Op(label)
		fs.Hold(false)
		if err := db.WaitOnTasks(); err != nil {
			c.Failf("background task failed: %v", err)
		}
		held = false
	}
	defer func() { fs.Hold(false) }()
	for step := 0; step < p.depth; step++ {
		op := c.Choose(2*len(ks) + 3)
		switch {
		case op == 0:
			step = p.depth
			continue
		case op == 1:
			sync("sync")
		case op == 2:
			if held {
				continue
			}
			c.Op("hold")
			fs.Hold(true)
			held = true
			continue
		default:
			if held && dkvh.SealedMemtables(db) >= 4 {
				sync("sync(forced:queue)")
				fs.Hold(true)
				held = true
			}
			ki := (op - 3) / 2
			key := ks[ki]
			if (op-3)%2 == 0 {
				val := fmt.Sprintf("v%d", step)
				c.Op("Put(%q,%s)", key, val)
				db.Put([]byte(key), []byte(val))
				ref[key] = val
			} else {
				c.Op("Delete(%q)", key)
				db.Delete([]byte(key))
				delete(ref, key)
			}
			writes[key]++
			if writes[key] > 1 {
				shadowed = true
			}
			if !held {
				if err := db.WaitOnTasks(); err != nil {
					c.Failf("background task failed: %v", err)
				}
			}
		}
		dkvh.CheckReads(c, "live", db, ref, ks, prefixes)
		lay := dkvh.NoteLayout(c, db)
		if shadowed {
			c.Nontrivial(fmt.Sprint(o, lay, ref))
		}
	}
	sync("sync(final)")
	dkvh.CheckReads(c, "after final sync", db, ref, ks, prefixes)
	c.Outcome(fmt.Sprint(o, ref))
}
