package kinesisfake

// Added by the verification overlay (never part of /repo): the fake's HTTP handler without a
// listening server, so that a harness can reach it through an in-process RoundTripper.

import "net/http"

func VerifNewHandler() (*Fake, http.Handler) {
	fk := &Fake{db: &db{streams: make(map[string]*stream)}, getRecordsLimit: 10_000}
	return fk, http.HandlerFunc(func(w http.ResponseWriter, r *http.Request) { route(fk, w, r) })
}
