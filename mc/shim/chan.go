package shim

import (
	"iter"
	"reflect"
)

func Send(ch any, op func()) { Point("send"); op(); Point("sent") }

func Recv[T any](ch <-chan T) T { Point("recv"); v := <-ch; Point("recvd"); return v }

func Recv2[T any](ch <-chan T) (T, bool) { Point("recv"); v, ok := <-ch; Point("recvd"); return v, ok }

func RangeChan[T any](ch <-chan T) iter.Seq[T] {
	return func(yield func(T) bool) {
		for {
			v, ok := Recv2(ch)
			if !ok || !yield(v) {
				return
			}
		}
	}
}

// Close brackets close(ch) with a point.
func Close[T any](ch chan T) { Point("close"); close(ch) }

type Case interface {
	selectCase() reflect.SelectCase
	set(reflect.Value, bool)
}

type RecvH[T any] struct {
	ch reflect.Value
	rv reflect.Value
	ok bool
}

func RecvCase[T any](ch <-chan T) *RecvH[T] { return &RecvH[T]{ch: reflect.ValueOf(ch)} }
func (h *RecvH[T]) selectCase() reflect.SelectCase {
	return reflect.SelectCase{Dir: reflect.SelectRecv, Chan: h.ch}
}
func (h *RecvH[T]) set(v reflect.Value, ok bool) { h.rv, h.ok = v, ok }
func (h *RecvH[T]) OK() bool                     { return h.ok }
func (h *RecvH[T]) Val() T {
	var zero T
	if !h.rv.IsValid() {
		return zero
	}
	v, ok := h.rv.Interface().(T)
	if !ok {
		return zero // nil interface value
	}
	return v
}

type SendH struct{ ch, v reflect.Value }

func SendCase(ch any, v any) *SendH {
	c := reflect.ValueOf(ch)
	val := reflect.ValueOf(v)
	et := c.Type().Elem()
	if !val.IsValid() {
		val = reflect.Zero(et)
	} else if !val.Type().AssignableTo(et) && val.Type().ConvertibleTo(et) {
		val = val.Convert(et)
	}
	return &SendH{ch: c, v: val}
}
func (h *SendH) selectCase() reflect.SelectCase {
	return reflect.SelectCase{Dir: reflect.SelectSend, Chan: h.ch, Send: h.v}
}
func (h *SendH) set(reflect.Value, bool) {}

// SelectRotation, when set by the harness, chooses which ready case wins: the cases are
// tried non-blockingly starting at the returned index.
var SelectRotation func(ncases int) int

// Select returns the index of the chosen case, or -1 for default.
func Select(hasDefault bool, cases ...Case) int {
	if S == nil {
		scs := make([]reflect.SelectCase, len(cases), len(cases)+1)
		for i, c := range cases {
			scs[i] = c.selectCase()
		}
		if hasDefault {
			scs = append(scs, reflect.SelectCase{Dir: reflect.SelectDefault})
		}
		chosen, rv, ok := reflect.Select(scs)
		if chosen == len(cases) {
			return -1
		}
		cases[chosen].set(rv, ok)
		return chosen
	}
	Point("select")
	defer Point("selected")
	rot := 0
	if SelectRotation != nil && len(cases) > 1 {
		rot = SelectRotation(len(cases))
	}
	for k := range cases {
		i := (k + rot) % len(cases)
		sc := cases[i].selectCase()
		if !sc.Chan.IsValid() || sc.Chan.IsNil() {
			continue
		}
		chosen, rv, ok := reflect.Select([]reflect.SelectCase{sc, {Dir: reflect.SelectDefault}})
		if chosen == 0 {
			cases[i].set(rv, ok)
			return i
		}
	}
	if hasDefault {
		return -1
	}
	scs := make([]reflect.SelectCase, len(cases))
	for i, c := range cases {
		scs[i] = c.selectCase()
	}
	chosen, rv, ok := reflect.Select(scs)
	cases[chosen].set(rv, ok)
	return chosen
}
