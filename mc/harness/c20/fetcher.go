package c20

import (
	"context"
	"fmt"
	"slices"
	"time"

	"reduction.dev/reduction/batching"
	"verif.local/mc/harness/schedh"
	"verif.local/mc/mc"
	"verif.local/mc/shim"
)

type fparams struct {
	items int
}

// fetcherBody: a producer adds items, the fetch function has arbitrary latency (a scheduling
// point), a consumer drains Output; the batch time-out runs on virtual time.
func fetcherBody(c *mc.Ctx) {
	p := c.Param.(fparams)
	size := 1 + c.Choose(2)
	delay := []time.Duration{10 * time.Millisecond, 0}[c.Choose(2)]
	buf := 1 + c.Choose(3) // 3: not a power of two
	// one fetch may fail (error, no results) or come back empty: the fetch whose batch contains
	// the chosen item; the results of every other batch must still come out, in order
	failItem, failMode := -1, 0
	if f := c.Choose(1 + 2*p.items); f > 0 {
		failItem, failMode = (f-1)/2, (f-1)%2
	}
	c.Op("[items=%d MaxSize=%d MaxDelay=%v BufferSize=%d; fetch of the batch with item %d %s]", p.items, size, delay, buf, failItem, []string{"fails", "returns nothing"}[failMode])
	var got, pauses []int
	var fetchErrs int
	lost := map[int]bool{}
	wantErrs, started, calls := 0, 0, 0
	schedh.Run(c, schedh.Opts{MaxSteps: 6000, MaxAdvances: 40}, func() {
		ctx, cancel := context.WithCancel(context.Background())
		errCh := make(chan error, 8)
		batcher := batching.NewEventBatcher[int](ctx, batching.EventBatcherParams{MaxSize: size, MaxDelay: delay})
		rf := batching.NewReorderFetcher(ctx, batching.NewReorderFetcherParams[int, int]{
			Batcher: batcher, ErrChan: errCh, BufferSize: buf,
			FetchBatch: func(ctx context.Context, events []int) ([]int, error) {
				started++
				shim.Point("fetch-latency")
				defer func() { calls++ }()
				if slices.Contains(events, failItem) {
					for _, e := range events {
						lost[e] = true
					}
					if failMode == 0 {
						wantErrs++
						return nil, fmt.Errorf("fetch failed")
					}
					return []int{}, nil
				}
				out := make([]int, len(events))
				for i, e := range events {
					out[i] = e * 10
				}
				return out, nil
			},
		})
		done := make(chan struct{})
		shim.Go(func() {
			for {
				out := shim.RecvCase(rf.Output)
				if shim.Select(false, out, shim.RecvCase(ctx.Done())) != 0 {
					break
				}
				got = append(got, out.Val())
			}
			shim.Close(done)
		})
		for i := 0; i < p.items; i++ {
			// a slow producer lets the batch time-out land between two items (enumerated)
			if i > 0 && delay > 0 && c.Choose(2) == 1 {
				pauses = append(pauses, i)
				shim.Sleep(15 * time.Millisecond)
			}
			rf.Add(ctx, i)
		}
		rf.Flush(ctx)
		// wait until every result that can come has been handed out: an early timer expiry is one of
		// the explored deviations, so a single sleep proves nothing; the deviation budget is small
		for try := 0; try < 12 && (calls < started || len(got) < p.items-len(lost) || len(errCh) < wantErrs); try++ {
			shim.Sleep(20 * time.Millisecond)
		}
		fetchErrs = len(errCh)
		cancel()
		shim.Recv(done)
	})
	var want []int
	for i := 0; i < p.items; i++ {
		if !lost[i] {
			want = append(want, i*10)
		}
	}
	c.Op("producer paused before items %v; output=%v", pauses, got)
	if fetchErrs != wantErrs {
		c.Failf("%d fetch errors reported, %d fetches failed", fetchErrs, wantErrs)
	}
	if !slices.Equal(got, want) {
		sig := "fetcher-reordered"
		s2 := slices.Clone(got)
		slices.Sort(s2)
		if !slices.Equal(s2, want) {
			sig = "fetcher-lost-or-duplicated"
		}
		c.FailSig(sig, "ReorderFetcher output %v, inputs map to %v", got, want)
	}
	c.Outcome(fmt.Sprint(size, delay, buf, failItem, failMode, pauses, got))
	c.Nontrivial(fmt.Sprint(size, delay, buf, failItem, failMode, pauses, c.Used()))
}
