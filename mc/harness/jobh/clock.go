package jobh

import (
	"sort"
	"time"

	"reduction.dev/reduction/clocks"
)

// Clock is the harness clocks.Clock: time moves only when the harness says so, periodic
// functions fire only when the harness ticks them, and a stopped ticker never fires.
type Clock struct {
	now     time.Time
	Tickers map[string]*tick
}

type tick struct {
	fn      func(*clocks.EveryContext)
	tc      *clocks.EveryContext
	stopped bool
	period  time.Duration
}

func NewClock() *Clock { return &Clock{now: time.Unix(1000, 0), Tickers: map[string]*tick{}} }

func (c *Clock) Now() time.Time { return c.now }

func (c *Clock) Advance(d time.Duration) { c.now = c.now.Add(d) }

func (c *Clock) Every(d time.Duration, fn func(*clocks.EveryContext), label string) *clocks.Ticker {
	t := &tick{fn: fn, tc: &clocks.EveryContext{}, period: d}
	c.Tickers[label] = t
	return clocks.VerifNewTicker(func() { t.stopped = true }, func() { t.fn(t.tc) })
}

// Active reports whether a ticker with this label exists and has not been stopped.
func (c *Clock) Active(label string) bool {
	t := c.Tickers[label]
	return t != nil && !t.stopped
}

// Tick fires the ticker (as the period elapsing would) and returns the retry delay it asked for.
func (c *Clock) Tick(label string) (retryIn time.Duration, fired bool) {
	t := c.Tickers[label]
	if t == nil || t.stopped {
		return 0, false
	}
	clocks.VerifClearRetry(t.tc)
	t.fn(t.tc)
	return clocks.VerifRetryIn(t.tc), true
}

// Labels lists the active tickers.
func (c *Clock) Labels() []string {
	var out []string
	for l, t := range c.Tickers {
		if !t.stopped {
			out = append(out, l)
		}
	}
	sort.Strings(out)
	return out
}

var _ clocks.Clock = (*Clock)(nil)
