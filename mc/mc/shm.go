package mc

import (
	"fmt"
	"os"
	"sync/atomic"
	"syscall"
	"unsafe"
)

// shmSet is a fixed-size open-addressing table of (state key hash, remaining budget) pairs in a
// memory-mapped file, shared by the worker processes of one sharded exploration: state-key
// pruning then works across processes and survives the replacement of a worker. Slots are two
// 64-bit words (hash, budget+1), claimed and raised with compare-and-swap; a full neighbourhood
// simply stops recording (less pruning, never wrong pruning).
type shmSet struct {
	words []uint64 // 2 per slot
	slots uint64
	count *uint64 // slot 0 is reserved: word 0 counts the recorded states
}

const shmProbe = 64

func openShmSet(path string, slots uint64, create bool) (*shmSet, error) {
	flags := os.O_RDWR
	if create {
		flags |= os.O_CREATE | os.O_TRUNC
	}
	f, err := os.OpenFile(path, flags, 0o600)
	if err != nil {
		return nil, err
	}
	defer f.Close()
	size := int64(slots+1) * 16
	if create {
		if err := f.Truncate(size); err != nil {
			return nil, err
		}
	} else if st, err := f.Stat(); err != nil || st.Size() != size {
		return nil, fmt.Errorf("shared state table %s has an unexpected size", path)
	}
	b, err := syscall.Mmap(int(f.Fd()), 0, int(size), syscall.PROT_READ|syscall.PROT_WRITE, syscall.MAP_SHARED)
	if err != nil {
		return nil, err
	}
	words := unsafe.Slice((*uint64)(unsafe.Pointer(&b[0])), (slots+1)*2)
	return &shmSet{words: words[2:], slots: slots, count: &words[0]}, nil
}

// seen: true if the state was recorded with at least `remaining` budget; records it otherwise.
func (s *shmSet) seen(h uint64, remaining int) bool {
	if h == 0 {
		h = 1
	}
	want := uint64(remaining) + 1
	i := h % s.slots
	for p := 0; p < shmProbe; p++ {
		k := &s.words[2*i]
		v := atomic.LoadUint64(k)
		if v == 0 {
			if atomic.CompareAndSwapUint64(k, 0, h) {
				atomic.AddUint64(s.count, 1)
				v = h
			} else {
				v = atomic.LoadUint64(k)
			}
		}
		if v == h {
			b := &s.words[2*i+1]
			for {
				old := atomic.LoadUint64(b)
				if old >= want {
					return true
				}
				if atomic.CompareAndSwapUint64(b, old, want) {
					return false
				}
			}
		}
		i++
		if i == s.slots {
			i = 0
		}
	}
	return false // neighbourhood full: not recorded, not pruned
}

func (s *shmSet) len() int { return int(atomic.LoadUint64(s.count)) }
