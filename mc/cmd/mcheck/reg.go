package main

import (
	"verif.local/mc/harness/c01"
	"verif.local/mc/harness/c02"
	"verif.local/mc/harness/c03"
	"verif.local/mc/harness/c04"
	"verif.local/mc/harness/c05"
	"verif.local/mc/harness/c06"
	"verif.local/mc/harness/c07"
	"verif.local/mc/harness/c08"
	"verif.local/mc/harness/c09"
	"verif.local/mc/harness/c10"
	"verif.local/mc/harness/c12"
	"verif.local/mc/harness/c13"
	"verif.local/mc/harness/c14"
	"verif.local/mc/harness/c15"
	"verif.local/mc/harness/c17"
	"verif.local/mc/harness/c18"
	"verif.local/mc/harness/c19"
	"verif.local/mc/harness/c20"
)

func init() {
	register("C14", "exploration", c14.Run)
	register("C01", "exploration", c01.Run)
	register("C15", "model_checking", c15.Run)
	register("C13", "fault_enumeration", c13.Run)
	register("C04", "exploration", c04.Run04)
	register("C11", "exploration", c04.Run11)
	register("C16", "exploration", c04.Run16)
	register("C02", "exploration", c02.Run)
	register("C03", "exploration", c03.Run)
	register("C06", "exploration", c06.Run)
	register("C20", "exploration", c20.Run)
	register("C05", "exploration", c05.Run)
	register("C12", "model_checking", c12.Run)
	register("C10", "exploration", c10.Run)
	register("C09", "exploration", c09.Run)
	register("C08", "fault_enumeration", c08.Run)
	register("C18", "model_checking", c18.Run)
	register("C07", "exploration", c07.Run)
	register("C17", "exploration", c17.Run)
	register("C19", "exploration", c19.Run)
}
