// Package jobh: shared pieces for harnesses that drive the job side (snapshot store, job).
package jobh

import (
	"io"
	"iter"
	"sort"
	"sync"

	"reduction.dev/reduction/storage/locations"
)

// MemLoc is an in-memory StorageLocation with lexicographic listing (as S3 and sorted
// directory walks give) that logs every mutating operation.
type MemLoc struct {
	mu    sync.Mutex
	Files map[string][]byte
	Log   []string
	OnOp  func(op string) // called (without the lock) after every mutating operation
	// BeforeWrite, when set, is called at the start of every Write and may block (the harness
	// decides when the write completes)
	BeforeWrite func(path string)
	// FailWrite, when set, may make a Write fail: nothing is stored then.
	FailWrite func(path string) error
}

func NewMemLoc() *MemLoc { return &MemLoc{Files: map[string][]byte{}} }

func (m *MemLoc) note(op string) {
	m.mu.Lock()
	m.Log = append(m.Log, op)
	cb := m.OnOp
	m.mu.Unlock()
	if cb != nil {
		cb(op)
	}
}

func (m *MemLoc) Write(path string, data io.Reader) (string, error) {
	b, err := io.ReadAll(data)
	if err != nil {
		return "", err
	}
	if m.BeforeWrite != nil {
		m.BeforeWrite(path) // may block: the harness decides when the write completes
	}
	if m.FailWrite != nil {
		if err := m.FailWrite(path); err != nil {
			m.note("failed-write " + path)
			return "", err
		}
	}
	m.mu.Lock()
	m.Files[path] = b
	m.mu.Unlock()
	m.note("write " + path)
	return path, nil
}

func (m *MemLoc) Read(path string) ([]byte, error) {
	m.mu.Lock()
	defer m.mu.Unlock()
	b, ok := m.Files[path]
	if !ok {
		return nil, locations.ErrNotFound
	}
	return b, nil
}

func (m *MemLoc) List() iter.Seq2[string, error] {
	m.mu.Lock()
	var ks []string
	for k := range m.Files {
		ks = append(ks, k)
	}
	m.mu.Unlock()
	sort.Strings(ks)
	return func(yield func(string, error) bool) {
		for _, k := range ks {
			if !yield(k, nil) {
				return
			}
		}
	}
}

func (m *MemLoc) URI(path string) (string, error) {
	m.mu.Lock()
	defer m.mu.Unlock()
	if _, ok := m.Files[path]; !ok {
		return "", locations.ErrNotFound
	}
	return path, nil
}

func (m *MemLoc) Copy(src, dst string) error {
	m.mu.Lock()
	b, ok := m.Files[src]
	if ok {
		m.Files[dst] = b
	}
	m.mu.Unlock()
	if !ok {
		return locations.ErrNotFound
	}
	m.note("copy " + src + " -> " + dst)
	return nil
}

func (m *MemLoc) Remove(paths ...string) error {
	for _, p := range paths {
		m.mu.Lock()
		delete(m.Files, p)
		m.mu.Unlock()
		m.note("remove " + p)
	}
	return nil
}

// Names returns the sorted file names.
func (m *MemLoc) Names() []string {
	m.mu.Lock()
	defer m.mu.Unlock()
	var ks []string
	for k := range m.Files {
		ks = append(ks, k)
	}
	sort.Strings(ks)
	return ks
}

// Snapshot copies the file map.
func (m *MemLoc) Snapshot() map[string][]byte {
	m.mu.Lock()
	defer m.mu.Unlock()
	out := make(map[string][]byte, len(m.Files))
	for k, v := range m.Files {
		out[k] = v
	}
	return out
}

var _ locations.StorageLocation = (*MemLoc)(nil)
