#!/bin/bash
# ./revert_test.sh <fix commit in /repo> <property id> [tier]
# Detection test: temporarily undoes one `fix:` commit in /repo's working tree (never
# committed), runs the property's check and expects a VIOLATION, then restores the tree.
c=$1; id=$2; tier=${3:-quick}
cd /repo || exit 2
[ -z "$(git status --porcelain)" ] || { echo "repo working tree not clean"; exit 2; }
git show "$c" | git apply -R || { echo "cannot reverse-apply $c"; exit 2; }
out=$(cd /verif && ./check "$id" "$tier" 2>&1); rc=$?
git checkout -- . 
echo "$out" | grep -E "^VIOLATION|^OK|KNOWN-FINDING|INTERNAL" | head -5
if [ $rc -eq 1 ]; then echo "DETECTED: reverting $c makes $id report a violation"; exit 0; fi
echo "MISSED: reverting $c leaves $id quiet (rc=$rc)"; exit 1
