// Package c20: batching never loses, duplicates or reorders items (DESIGN §5 C20).
package c20

import (
	"context"
	"fmt"
	"slices"
	"time"

	"reduction.dev/reduction/batching"
	"verif.local/mc/mc"
	"verif.local/mc/report"
)

type params struct{ depth int }

// hTimer is the harness clocks.Timer: expiry is an explorer-chosen event.
type hTimer struct {
	do    func()
	sets  int
	stops int
	onSet func()
}

func (t *hTimer) Set(d time.Duration, do func()) {
	t.do = do
	t.sets++
	if t.onSet != nil {
		t.onSet()
	}
}
func (t *hTimer) Stop() { t.do = nil; t.stops++ }

func Run(k *report.Check) {
	k.Rule = "reorder fetcher: the real ReorderFetcher + EventBatcher (time-out on virtual time) with a producer thread, fetches of arbitrary latency and a consumer thread, every schedule within the stated delay bound (cost = index of the chosen thread at every scheduling point; an early timer expiry costs one), MaxSize in {1,2}, MaxDelay in {10ms,0}, BufferSize in {1,2}: one result per input, in input order, no deadlock. event batcher: every sequence up to the depth over Add / IsFull / Flush(current) / timer expiry / Flush(each of the three most recently issued time-out tokens), MaxSize in {1,2,3}, MaxDelay in {0, 10ms}; the concatenation of all batches handed out must equal the items added, a stale token must flush nothing, IsFull must reflect the batch size. non-trivial = distinct (configuration, batch length, armed/issued token pattern) states in which a time-out token was issued"
	k.Assumptions = []string{"one goroutine calls the batcher at a time in this part (concurrent use is the reorder-fetcher part's subject, under the scheduler)"}
	k.Budget(150, 900)
	k.Parts(k.Pick(2, 3))
	p := params{depth: k.Pick(9, 11)}
	k.Explore(fmt.Sprintf("eventbatcher/d=%d", p.depth), mc.Config{}, p, batcherBody)
	for _, n := range []int{3, 4}[:k.Pick(1, 2)] {
		bound := k.Pick(2, 3)
		k.ExploreSched(fmt.Sprintf("reorderfetcher/items=%d,delays<=%d", n, bound), mc.Config{Bound: bound}, fparams{items: n}, fetcherBody)
	}
}

func batcherBody(c *mc.Ctx) {
	p := c.Param.(params)
	size := 1 + c.Choose(3)
	delay := []time.Duration{0, 10 * time.Millisecond}[c.Choose(2)]
	c.Op("[MaxSize=%d MaxDelay=%v]", size, delay)
	tm := &hTimer{}
	ctx, cancel := context.WithCancel(context.Background())
	defer cancel()
	b := batching.NewEventBatcher[int](ctx, batching.EventBatcherParams{MaxSize: size, MaxDelay: delay, Timer: tm})
	var added, flushed []int
	var batch []int // model of the current batch
	cur := 0        // model of the current batch token
	var issued []batching.BatchToken
	next := 0
	// a timer that has expired runs its callback on a goroutine of its own, which may be delayed:
	// expiry and the callback's run are separate events
	type firedCb struct {
		do    func()
		armed int // token of the batch the timer was armed for
	}
	var fired []firedCb
	armed := 0
	tm.onSet = func() { armed = cur }
	check := func(got []int, wantFlush bool, what string) {
		if wantFlush {
			if !slices.Equal(got, batch) {
				c.FailSig("wrong-batch", "%s returned %v, the current batch is %v", what, got, batch)
			}
			flushed = append(flushed, got...)
			batch = nil
			cur++
		} else if len(got) != 0 {
			c.FailSig("stale-token-flushes", "%s returned %v, want nothing (current batch %v, token %d)", what, got, batch, cur)
		}
	}
	for step := 0; step < p.depth; step++ {
		nTok := min(len(issued), 3)
		op := c.Choose(6 + nTok)
		if op == 5+nTok { // the callback of the timer that expired longest ago runs
			if len(fired) == 0 {
				continue
			}
			f := fired[0]
			fired = fired[1:]
			go f.do()
			tok := <-b.BatchTimedOut
			c.Op("TimerCallbackRuns->token %d", tok)
			if int(tok) != f.armed {
				c.FailSig("timeout-token-of-another-batch", "the time-out armed for batch %d delivers token %d", f.armed, tok)
			}
			issued = append(issued, tok)
			continue
		}
		switch {
		case op == 0:
			step = p.depth
		case op == 1:
			c.Op("Add(%d)", next)
			b.Add(next)
			added = append(added, next)
			batch = append(batch, next)
			next++
		case op == 2:
			full := b.IsFull()
			c.Op("IsFull=%v", full)
			if full != (len(batch) >= size) {
				c.Failf("IsFull() = %v with %d of %d items", full, len(batch), size)
			}
		case op == 3:
			got := b.Flush(batching.CurrentBatch)
			c.Op("Flush(current)=%v", got)
			check(got, len(batch) > 0, "Flush(current)")
		case op == 4:
			if tm.do == nil {
				continue
			}
			fired = append(fired, firedCb{tm.do, armed})
			tm.do = nil // one-shot
			c.Op("TimerExpires(armed for batch %d)", armed)
		default:
			tok := issued[len(issued)-1-(op-5)]
			got := b.Flush(tok)
			c.Op("Flush(token %d)=%v", tok, got)
			check(got, len(batch) > 0 && int(tok) == cur, fmt.Sprintf("Flush(token %d)", tok))
		}
		if len(issued) > 0 && c.Fresh() {
			c.Nontrivial(fmt.Sprint(size, delay, len(batch), cur, tm.do != nil, issued[max(0, len(issued)-3):]))
		}
	}
	for _, f := range fired { // callbacks still outstanding deliver their own batch's token too
		go f.do()
		if tok := <-b.BatchTimedOut; int(tok) != f.armed {
			c.FailSig("timeout-token-of-another-batch", "the time-out armed for batch %d delivers token %d", f.armed, tok)
		}
	}
	got := b.Flush(batching.CurrentBatch)
	c.Op("Flush(current,final)=%v", got)
	check(got, len(batch) > 0, "final Flush(current)")
	if !slices.Equal(flushed, added) {
		c.FailSig("concatenation", "batches handed out %v, items added %v", flushed, added)
	}
}
