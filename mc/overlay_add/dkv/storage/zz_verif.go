package storage

// Added by the verification overlay (never part of /repo): lets a harness hand its own
// (recording) file system to code that opens its storage by location string.

import (
	"strings"
	"sync"
)

var verifFS sync.Map // location prefix -> func(location string) FileSystem

// VerifRegisterFS makes NewFileSystemFromLocation return mk(location) for every location that
// starts with prefix. A nil mk removes the registration.
func VerifRegisterFS(prefix string, mk func(location string) FileSystem) {
	if mk == nil {
		verifFS.Delete(prefix)
		return
	}
	verifFS.Store(prefix, mk)
}

func verifLookupFS(location string) (FileSystem, bool) {
	var found FileSystem
	verifFS.Range(func(k, v any) bool {
		if strings.HasPrefix(location, k.(string)) {
			found = v.(func(string) FileSystem)(location)
			return false
		}
		return true
	})
	return found, found != nil
}
