module verif.local/tools

go 1.24

toolchain go1.24.0

require (
	connectrpc.com/connect v1.18.1
	golang.org/x/tools v0.29.0
	google.golang.org/protobuf v1.36.3
	reduction.dev/reduction-protocol v0.0.5-0.20250502133230-e5852cf15cdc
)

require (
	golang.org/x/mod v0.22.0 // indirect
	golang.org/x/sync v0.10.0 // indirect
)
