// pbgen: minimal offline replacement for `protoc --go_out --connect-go_out` for the
// proto3 subset used by reduction.dev/reduction. Parses .proto files into
// FileDescriptorProtos, resolves imports against descriptors linked into this
// binary, then drives protoc-gen-go / protoc-gen-connect-go.
package main

import (
	"bytes"
	"flag"
	"fmt"
	"os"
	"os/exec"
	"path/filepath"
	"strconv"
	"strings"
	"unicode"

	"google.golang.org/protobuf/proto"
	"google.golang.org/protobuf/reflect/protodesc"
	"google.golang.org/protobuf/reflect/protoreflect"
	"google.golang.org/protobuf/reflect/protoregistry"
	"google.golang.org/protobuf/types/descriptorpb"
	"google.golang.org/protobuf/types/pluginpb"

	_ "google.golang.org/protobuf/types/known/durationpb"
	_ "google.golang.org/protobuf/types/known/timestamppb"
	_ "reduction.dev/reduction-protocol/handlerpb"
	_ "reduction.dev/reduction-protocol/jobconfigpb"
)

type tok struct {
	s   string
	str bool // string literal
}

func lex(src string) []tok {
	var out []tok
	i := 0
	for i < len(src) {
		c := src[i]
		switch {
		case c == '/' && i+1 < len(src) && src[i+1] == '/':
			for i < len(src) && src[i] != '\n' {
				i++
			}
		case c == '/' && i+1 < len(src) && src[i+1] == '*':
			j := strings.Index(src[i+2:], "*/")
			if j < 0 {
				panic("unterminated comment")
			}
			i += j + 4
		case unicode.IsSpace(rune(c)):
			i++
		case c == '"' || c == '\'':
			j := i + 1
			var sb strings.Builder
			for src[j] != c {
				if src[j] == '\\' {
					j++
				}
				sb.WriteByte(src[j])
				j++
			}
			out = append(out, tok{sb.String(), true})
			i = j + 1
		case unicode.IsLetter(rune(c)) || c == '_' || c == '.' || unicode.IsDigit(rune(c)) || c == '-':
			j := i
			for j < len(src) && (unicode.IsLetter(rune(src[j])) || src[j] == '_' || src[j] == '.' || unicode.IsDigit(rune(src[j])) || src[j] == '-') {
				j++
			}
			out = append(out, tok{src[i:j], false})
			i = j
		default:
			out = append(out, tok{string(c), false})
			i++
		}
	}
	return out
}

type parser struct {
	t    []tok
	p    int
	file string
}

func (p *parser) peek() string { return p.t[p.p].s }
func (p *parser) next() tok    { t := p.t[p.p]; p.p++; return t }
func (p *parser) expect(s string) {
	if t := p.next(); t.s != s || t.str {
		panic(fmt.Sprintf("%s: expected %q got %q (token %d)", p.file, s, t.s, p.p))
	}
}
func (p *parser) eof() bool { return p.p >= len(p.t) }

var scalars = map[string]descriptorpb.FieldDescriptorProto_Type{
	"double": descriptorpb.FieldDescriptorProto_TYPE_DOUBLE, "float": descriptorpb.FieldDescriptorProto_TYPE_FLOAT,
	"int32": descriptorpb.FieldDescriptorProto_TYPE_INT32, "int64": descriptorpb.FieldDescriptorProto_TYPE_INT64,
	"uint32": descriptorpb.FieldDescriptorProto_TYPE_UINT32, "uint64": descriptorpb.FieldDescriptorProto_TYPE_UINT64,
	"sint32": descriptorpb.FieldDescriptorProto_TYPE_SINT32, "sint64": descriptorpb.FieldDescriptorProto_TYPE_SINT64,
	"fixed32": descriptorpb.FieldDescriptorProto_TYPE_FIXED32, "fixed64": descriptorpb.FieldDescriptorProto_TYPE_FIXED64,
	"sfixed32": descriptorpb.FieldDescriptorProto_TYPE_SFIXED32, "sfixed64": descriptorpb.FieldDescriptorProto_TYPE_SFIXED64,
	"bool": descriptorpb.FieldDescriptorProto_TYPE_BOOL, "string": descriptorpb.FieldDescriptorProto_TYPE_STRING,
	"bytes": descriptorpb.FieldDescriptorProto_TYPE_BYTES,
}

func jsonName(s string) string {
	var sb strings.Builder
	up := false
	for _, r := range s {
		if r == '_' {
			up = true
			continue
		}
		if up {
			sb.WriteRune(unicode.ToUpper(r))
			up = false
		} else {
			sb.WriteRune(r)
		}
	}
	return sb.String()
}

func (p *parser) skipOptions() {
	if p.peek() == "[" {
		for p.next().s != "]" {
		}
	}
}

func (p *parser) parseField(label descriptorpb.FieldDescriptorProto_Label, proto3opt bool) *descriptorpb.FieldDescriptorProto {
	typ := p.next().s
	name := p.next().s
	p.expect("=")
	num, err := strconv.Atoi(p.next().s)
	if err != nil {
		panic(err)
	}
	p.skipOptions()
	p.expect(";")
	f := &descriptorpb.FieldDescriptorProto{
		Name: proto.String(name), Number: proto.Int32(int32(num)), Label: label.Enum(), JsonName: proto.String(jsonName(name)),
	}
	if st, ok := scalars[typ]; ok {
		f.Type = st.Enum()
	} else {
		f.TypeName = proto.String(typ) // resolved later
	}
	if proto3opt {
		f.Proto3Optional = proto.Bool(true)
	}
	return f
}

func (p *parser) parseEnum() *descriptorpb.EnumDescriptorProto {
	e := &descriptorpb.EnumDescriptorProto{Name: proto.String(p.next().s)}
	p.expect("{")
	for p.peek() != "}" {
		if p.peek() == "option" || p.peek() == "reserved" {
			for p.next().s != ";" {
			}
			continue
		}
		name := p.next().s
		p.expect("=")
		n, err := strconv.Atoi(p.next().s)
		if err != nil {
			panic(err)
		}
		p.skipOptions()
		p.expect(";")
		e.Value = append(e.Value, &descriptorpb.EnumValueDescriptorProto{Name: proto.String(name), Number: proto.Int32(int32(n))})
	}
	p.expect("}")
	return e
}

func (p *parser) parseMessage() *descriptorpb.DescriptorProto {
	m := &descriptorpb.DescriptorProto{Name: proto.String(p.next().s)}
	p.expect("{")
	for p.peek() != "}" {
		switch p.peek() {
		case ";":
			p.next()
		case "message":
			p.next()
			m.NestedType = append(m.NestedType, p.parseMessage())
		case "enum":
			p.next()
			m.EnumType = append(m.EnumType, p.parseEnum())
		case "option", "reserved":
			for p.next().s != ";" {
			}
		case "oneof":
			p.next()
			idx := int32(len(m.OneofDecl))
			m.OneofDecl = append(m.OneofDecl, &descriptorpb.OneofDescriptorProto{Name: proto.String(p.next().s)})
			p.expect("{")
			for p.peek() != "}" {
				f := p.parseField(descriptorpb.FieldDescriptorProto_LABEL_OPTIONAL, false)
				f.OneofIndex = proto.Int32(idx)
				m.Field = append(m.Field, f)
			}
			p.expect("}")
		case "repeated":
			p.next()
			m.Field = append(m.Field, p.parseField(descriptorpb.FieldDescriptorProto_LABEL_REPEATED, false))
		case "optional":
			p.next()
			m.Field = append(m.Field, p.parseField(descriptorpb.FieldDescriptorProto_LABEL_OPTIONAL, true))
		case "map":
			panic(p.file + ": map fields are not supported by pbgen")
		default:
			m.Field = append(m.Field, p.parseField(descriptorpb.FieldDescriptorProto_LABEL_OPTIONAL, false))
		}
	}
	p.expect("}")
	// proto3 optional fields get synthetic oneofs, which must come after real oneofs.
	for _, f := range m.Field {
		if f.GetProto3Optional() {
			f.OneofIndex = proto.Int32(int32(len(m.OneofDecl)))
			m.OneofDecl = append(m.OneofDecl, &descriptorpb.OneofDescriptorProto{Name: proto.String("_" + f.GetName())})
		}
	}
	return m
}

func (p *parser) parseService() *descriptorpb.ServiceDescriptorProto {
	s := &descriptorpb.ServiceDescriptorProto{Name: proto.String(p.next().s)}
	p.expect("{")
	for p.peek() != "}" {
		if p.peek() == "option" {
			for p.next().s != ";" {
			}
			continue
		}
		p.expect("rpc")
		m := &descriptorpb.MethodDescriptorProto{Name: proto.String(p.next().s)}
		p.expect("(")
		if p.peek() == "stream" {
			p.next()
			m.ClientStreaming = proto.Bool(true)
		}
		m.InputType = proto.String(p.next().s)
		p.expect(")")
		p.expect("returns")
		p.expect("(")
		if p.peek() == "stream" {
			p.next()
			m.ServerStreaming = proto.Bool(true)
		}
		m.OutputType = proto.String(p.next().s)
		p.expect(")")
		if p.peek() == "{" {
			for p.next().s != "}" {
			}
		} else {
			p.expect(";")
		}
		s.Method = append(s.Method, m)
	}
	p.expect("}")
	return s
}

func parseFile(name, src string) *descriptorpb.FileDescriptorProto {
	p := &parser{t: lex(src), file: name}
	fd := &descriptorpb.FileDescriptorProto{Name: proto.String(name), Options: &descriptorpb.FileOptions{}}
	for !p.eof() {
		switch t := p.next().s; t {
		case ";":
		case "syntax":
			p.expect("=")
			fd.Syntax = proto.String(p.next().s)
			p.expect(";")
		case "import":
			if p.peek() == "public" || p.peek() == "weak" {
				p.next()
			}
			fd.Dependency = append(fd.Dependency, p.next().s)
			p.expect(";")
		case "package":
			fd.Package = proto.String(p.next().s)
			p.expect(";")
		case "option":
			k := p.next().s
			p.expect("=")
			v := p.next().s
			p.expect(";")
			if k == "go_package" {
				fd.Options.GoPackage = proto.String(v)
			}
		case "message":
			fd.MessageType = append(fd.MessageType, p.parseMessage())
		case "enum":
			fd.EnumType = append(fd.EnumType, p.parseEnum())
		case "service":
			fd.Service = append(fd.Service, p.parseService())
		default:
			panic(fmt.Sprintf("%s: unexpected top-level token %q", name, t))
		}
	}
	return fd
}

// symbol table: fully-qualified name (no leading dot) -> isEnum
type symtab map[string]bool

func addMsgSyms(st symtab, prefix string, m *descriptorpb.DescriptorProto) {
	fq := prefix + m.GetName()
	st[fq] = false
	for _, n := range m.NestedType {
		addMsgSyms(st, fq+".", n)
	}
	for _, e := range m.EnumType {
		st[fq+"."+e.GetName()] = true
	}
}

func addFileSyms(st symtab, fd *descriptorpb.FileDescriptorProto) {
	prefix := ""
	if fd.GetPackage() != "" {
		prefix = fd.GetPackage() + "."
	}
	for _, m := range fd.MessageType {
		addMsgSyms(st, prefix, m)
	}
	for _, e := range fd.EnumType {
		st[prefix+e.GetName()] = true
	}
}

func resolve(st symtab, scope, name string) (string, bool) {
	if strings.HasPrefix(name, ".") {
		isEnum, ok := st[name[1:]]
		if !ok {
			panic("unresolved type " + name)
		}
		return name, isEnum
	}
	for {
		cand := name
		if scope != "" {
			cand = scope + "." + name
		}
		if isEnum, ok := st[cand]; ok {
			return "." + cand, isEnum
		}
		if scope == "" {
			panic(fmt.Sprintf("unresolved type %q", name))
		}
		if i := strings.LastIndex(scope, "."); i >= 0 {
			scope = scope[:i]
		} else {
			scope = ""
		}
	}
}

func resolveMsg(st symtab, scope string, m *descriptorpb.DescriptorProto) {
	fq := m.GetName()
	if scope != "" {
		fq = scope + "." + fq
	}
	for _, f := range m.Field {
		if f.Type == nil {
			tn, isEnum := resolve(st, fq, f.GetTypeName())
			f.TypeName = proto.String(tn)
			if isEnum {
				f.Type = descriptorpb.FieldDescriptorProto_TYPE_ENUM.Enum()
			} else {
				f.Type = descriptorpb.FieldDescriptorProto_TYPE_MESSAGE.Enum()
			}
		}
	}
	for _, n := range m.NestedType {
		resolveMsg(st, fq, n)
	}
}

func main() {
	root := flag.String("root", "/repo", "repository root (import root for local .proto files)")
	out := flag.String("out", "", "output directory (mirrors root layout)")
	plugGo := flag.String("protoc-gen-go", "", "path to protoc-gen-go")
	plugConnect := flag.String("protoc-gen-connect-go", "", "path to protoc-gen-connect-go")
	flag.Parse()
	files := flag.Args()

	parsed := map[string]*descriptorpb.FileDescriptorProto{}
	for _, f := range files {
		src, err := os.ReadFile(filepath.Join(*root, f))
		if err != nil {
			panic(err)
		}
		parsed[f] = parseFile(f, string(src))
	}

	// Gather dependency descriptors (transitively) from the linked registry.
	depFiles := map[string]*descriptorpb.FileDescriptorProto{}
	var order []string
	var addDep func(path string)
	addDep = func(path string) {
		if _, ok := depFiles[path]; ok {
			return
		}
		if _, ok := parsed[path]; ok {
			return
		}
		d, err := protoregistry.GlobalFiles.FindFileByPath(path)
		if err != nil {
			panic(fmt.Sprintf("import %q is neither a local file nor linked into pbgen: %v", path, err))
		}
		fdp := protodesc.ToFileDescriptorProto(d)
		depFiles[path] = fdp
		for _, dd := range fdp.Dependency {
			addDep(dd)
		}
		order = append(order, path)
	}
	// topological order for local files
	var localOrder []string
	seen := map[string]bool{}
	var visit func(f string)
	visit = func(f string) {
		if seen[f] {
			return
		}
		seen[f] = true
		for _, d := range parsed[f].Dependency {
			if _, ok := parsed[d]; ok {
				visit(d)
			} else {
				addDep(d)
			}
		}
		localOrder = append(localOrder, f)
	}
	for _, f := range files {
		visit(f)
	}

	st := symtab{}
	for _, fdp := range depFiles {
		addFileSyms(st, fdp)
	}
	for _, fdp := range parsed {
		addFileSyms(st, fdp)
	}
	for _, f := range localOrder {
		fdp := parsed[f]
		for _, m := range fdp.MessageType {
			resolveMsg(st, fdp.GetPackage(), m)
		}
		for _, s := range fdp.Service {
			for _, m := range s.Method {
				in, _ := resolve(st, fdp.GetPackage(), m.GetInputType())
				o, _ := resolve(st, fdp.GetPackage(), m.GetOutputType())
				m.InputType, m.OutputType = proto.String(in), proto.String(o)
			}
		}
	}

	// Validate by building real descriptors.
	reg := &protoregistry.Files{}
	var all []*descriptorpb.FileDescriptorProto
	for _, path := range order {
		all = append(all, depFiles[path])
	}
	for _, f := range localOrder {
		all = append(all, parsed[f])
	}
	for _, fdp := range all {
		fd, err := protodesc.NewFile(fdp, reg)
		if err != nil {
			panic(fmt.Sprintf("invalid descriptor for %s: %v", fdp.GetName(), err))
		}
		if err := reg.RegisterFile(fd); err != nil {
			panic(err)
		}
		_ = protoreflect.FileDescriptor(fd)
	}

	req := &pluginpb.CodeGeneratorRequest{
		FileToGenerate: localOrder,
		Parameter:      proto.String("paths=source_relative"),
		ProtoFile:      all,
		CompilerVersion: &pluginpb.Version{Major: proto.Int32(5), Minor: proto.Int32(29), Patch: proto.Int32(3)},
	}
	reqBytes, err := proto.Marshal(req)
	if err != nil {
		panic(err)
	}
	n := 0
	for _, plug := range []string{*plugGo, *plugConnect} {
		if plug == "" {
			continue
		}
		cmd := exec.Command(plug)
		cmd.Stdin = bytes.NewReader(reqBytes)
		var stdout bytes.Buffer
		cmd.Stdout = &stdout
		cmd.Stderr = os.Stderr
		if err := cmd.Run(); err != nil {
			panic(fmt.Sprintf("%s: %v", plug, err))
		}
		var resp pluginpb.CodeGeneratorResponse
		if err := proto.Unmarshal(stdout.Bytes(), &resp); err != nil {
			panic(err)
		}
		if resp.Error != nil {
			panic(fmt.Sprintf("%s: %s", plug, resp.GetError()))
		}
		for _, f := range resp.File {
			dst := filepath.Join(*out, f.GetName())
			if err := os.MkdirAll(filepath.Dir(dst), 0o755); err != nil {
				panic(err)
			}
			if err := os.WriteFile(dst, []byte(f.GetContent()), 0o644); err != nil {
				panic(err)
			}
			n++
		}
	}
	fmt.Printf("pbgen: wrote %d files under %s\n", n, *out)
}
