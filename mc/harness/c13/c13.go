// Package c13: restart resumes from the newest completed checkpoint; retention keeps it
// (DESIGN §5 C13). Crash enumeration over storage-operation prefixes, sequentially for many
// id ranges and under the scheduler for overlapping publications.
package c13

import (
	"fmt"
	"os"
	"path/filepath"
	"sort"
	"strings"
	"time"

	gproto "google.golang.org/protobuf/proto"
	"reduction.dev/reduction/connectors"
	"reduction.dev/reduction/proto/jobpb"
	"reduction.dev/reduction/proto/snapshotpb"
	"reduction.dev/reduction/storage/locations"
	"reduction.dev/reduction/storage/snapshots"
	"verif.local/mc/harness/jobh"
	"verif.local/mc/harness/schedh"
	"verif.local/mc/mc"
	"verif.local/mc/report"
	"verif.local/mc/shim"
)

type splitter struct {
	connectors.UnimplementedSourceSplitter
}

func (s *splitter) IsSourceSplitter()  {}
func (s *splitter) Checkpoint() []byte { return []byte("sp") }

func seg(id uint64) string { return snapshots.VerifPathSegment(id) }

func snapPath(id uint64) string { return "checkpoints/job-" + seg(id) + ".snapshot" }

func Run(k *report.Check) {
	k.Rule = "crash enumeration: a real snapshots.Store publishes 2-3 consecutive checkpoints; after every storage operation (write / remove) the file set is snapshotted and a new Store started on a copy must load the highest checkpoint id whose snapshot file had been completely written. (0) every set of one to three snapshot files over a 53-id universe (what repeated crashes between writing the new file and removing the old one, plus abandoned checkpoint ids, can leave behind); (a) sequentially, starting from every id in 0..70 and around 2^6, 2^12, 2^16, 2^32 (both an in-memory location with lexicographic listing and the real LocalDirectory for a subset); (b) under the cooperative scheduler with the publication goroutines of consecutive checkpoints overlapping (checkpoint N+1 is created and acknowledged as soon as N is complete), every schedule within the delay bound: additionally Remove never targets the newest published checkpoint, a retained notification never names an id lower than one already announced or published, CurrentCheckpoint never goes backwards; a further part makes the write of one snapshot file fail (enumerated which): nothing is removed or announced on behalf of a checkpoint whose file was not written, and the newest written checkpoint stays current and in storage. non-trivial = distinct (start id, crash point) pairs with at least two snapshot files present, and distinct schedules in which two publications overlapped"
	k.Assumptions = []string{"a storage operation is atomic (no torn snapshot file)", "in-memory location lists lexicographically like S3 and sorted directory walks; a real directory is used for a subset of ids"}
	k.Budget(120, 1200)
	var starts []uint64
	for i := uint64(0); i <= 70; i++ {
		starts = append(starts, i)
	}
	for _, b := range []uint64{1 << 6, 1 << 12, 1 << 16, 1 << 32} {
		for d := uint64(0); d < 6; d++ {
			starts = append(starts, b-3+d)
		}
	}
	k.Parts(6)
	k.Explore("crash-after-each-storage-op/memory", mc.Config{}, seqParams{starts: starts, n: k.Pick(3, 4)}, seqBody)
	k.Explore("crash-after-each-storage-op/local-directory", mc.Config{Workers: 4}, seqParams{starts: []uint64{0, 1, 2, 3, 61, 62, 63, 64, 4094, 1<<32 - 2}, n: 3, real: true}, seqBody)
	k.Explore("restart/any-three-snapshot-files", mc.Config{}, nil, subsetBody)
	bound := k.Pick(3, 5)
	k.ExploreSched(fmt.Sprintf("overlapping-publication/with-savepoint,delays<=%d", bound), mc.Config{Bound: bound, Deadline: k.Within(0.3)}, overlapParams{n: 2, savepoint: true}, overlapBody)
	k.ExploreSched(fmt.Sprintf("overlapping-publication/write-fails,delays<=%d", bound-1), mc.Config{Bound: bound - 1, Deadline: k.Within(0.3)}, overlapParams{n: 3, failWrite: true}, overlapBody)
	k.ExploreSched(fmt.Sprintf("overlapping-publication/delays<=%d", bound), mc.Config{Bound: bound}, overlapParams{n: 3}, overlapBody)
}

// subsetBody: whatever set of completed snapshot files a history of crashes and abandoned
// checkpoint ids leaves behind (a crash between "write new" and "remove old" leaves the old
// file for good, since a restarted store only knows the checkpoint it loaded), a restart must
// load the highest id. Every set of one to three ids from a universe with small ids, ids
// around the base64 digit boundaries and large ids.
var universe = func() []uint64 {
	var u []uint64
	for i := uint64(1); i <= 40; i++ {
		u = append(u, i)
	}
	return append(u, 47, 48, 62, 63, 64, 65, 4094, 4095, 4096, 4097, 1<<32-1, 1<<32, 1<<32+1)
}()

func subsetBody(c *mc.Ctx) {
	n := len(universe)
	i := c.Choose(n)
	j := i + c.Choose(n-i)
	k := j + c.Choose(n-j)
	ids := []uint64{universe[i]}
	if j > i {
		ids = append(ids, universe[j])
	}
	if k > j {
		ids = append(ids, universe[k])
	}
	files := map[string][]byte{}
	for _, id := range ids {
		files[snapPath(id)] = mustSnap(id)
	}
	c.Op("snapshot files of checkpoints %v", ids)
	checkCrash(c, files, fmt.Sprintf("a history that left the snapshots of %v", ids))
}

type seqParams struct {
	starts []uint64
	n      int
	real   bool
}

// crashProbe starts a new Store on a copy of files and returns the checkpoint id it recovers.
func crashProbe(files map[string][]byte) (id uint64, err error) {
	loc := jobh.NewMemLoc()
	for k, v := range files {
		loc.Files[k] = v
	}
	s := snapshots.NewStore(&snapshots.NewStoreParams{FileStore: loc, SavepointsPath: "savepoints", CheckpointsPath: "checkpoints"})
	defer func() {
		if r := recover(); r != nil {
			err = fmt.Errorf("panic: %v", r)
		}
	}()
	if e := s.LoadCheckpoint(); e != nil {
		return 0, e
	}
	if cur := s.CurrentCheckpoint(); cur != nil {
		return cur.Id, nil
	}
	return 0, nil
}

func newestComplete(files map[string][]byte) uint64 {
	var best uint64
	for name, data := range files {
		if !strings.HasSuffix(name, ".snapshot") {
			continue
		}
		var snap snapshotpb.JobCheckpoint
		if gproto.Unmarshal(data, &snap) == nil && snap.Id > best {
			best = snap.Id
		}
	}
	return best
}

func checkCrash(c *mc.Ctx, files map[string][]byte, after string) {
	want := newestComplete(files)
	got, err := crashProbe(files)
	var names []string
	for n := range files {
		if strings.HasSuffix(n, ".snapshot") {
			names = append(names, n)
		}
	}
	sort.Strings(names)
	if err != nil {
		c.FailSig("restart-fails", "restart after `%s` fails: %v (snapshot files %v)", after, err, names)
	}
	if got != want {
		c.FailSig("restart-loads-older-checkpoint", "a job restarted after `%s` resumes from checkpoint %d, but checkpoint %d is completely written (snapshot files in listing order: %v)", after, got, want, names)
	}
	if len(names) >= 2 {
		c.Nontrivial(fmt.Sprint(want, names))
	}
}

// drive completes one checkpoint on the store and returns its id.
func drive(store *snapshots.Store, savepoint bool) uint64 {
	var id uint64
	var err error
	if savepoint {
		id, _, err = store.CreateSavepoint([]string{"o1"}, []string{"s1"})
	} else {
		id, err = store.CreateCheckpoint([]string{"o1"}, []string{"s1"})
	}
	if err != nil {
		panic(fmt.Sprintf("mc: harness: CreateCheckpoint: %v", err))
	}
	if err := store.AddOperatorSnapshot(&snapshotpb.OperatorCheckpoint{CheckpointId: id, OperatorId: "o1", DkvFileUri: "o1/checkpoints"}); err != nil {
		panic(fmt.Sprintf("mc: harness: operator ack: %v", err))
	}
	if err := store.AddSourceSnapshot(&jobpb.SourceRunnerCheckpointCompleteRequest{CheckpointId: id, SourceRunnerId: "s1", SplitStates: [][]byte{[]byte("s")}}); err != nil {
		panic(fmt.Sprintf("mc: harness: runner ack: %v", err))
	}
	return id
}

var dirSeq int

func seqBody(c *mc.Ctx) {
	p := c.Param.(seqParams)
	start := p.starts[c.Choose(len(p.starts))]
	c.Op("[first new checkpoint id %d, %d checkpoints%s]", start+1, p.n, map[bool]string{true: ", real directory", false: ""}[p.real])
	mem := jobh.NewMemLoc()
	var loc locations.StorageLocation = mem
	var dir string
	if p.real {
		dirSeq++
		dir = filepath.Join(os.Getenv("VERIF_TMP"), fmt.Sprintf("c13-%d-%d", os.Getpid(), dirSeq))
		if os.Getenv("VERIF_TMP") == "" {
			dir = filepath.Join("/dev/shm", fmt.Sprintf("verif-c13-%d-%d", os.Getpid(), dirSeq))
		}
		os.RemoveAll(dir)
		defer os.RemoveAll(dir)
		loc = locations.NewLocalDirectory(dir)
	}
	snapshotFiles := func() map[string][]byte {
		if !p.real {
			return mem.Snapshot()
		}
		out := map[string][]byte{}
		for path, err := range loc.List() {
			if err != nil {
				c.Failf("list: %v", err)
			}
			data, _ := loc.Read(path)
			rel, _ := filepath.Rel(dir, path)
			out[rel] = data
		}
		return out
	}
	// a completed checkpoint `start` is already in storage (the job ran before)
	if start > 0 {
		data, _ := gproto.Marshal(&snapshotpb.JobCheckpoint{Id: start, SourceCheckpoints: []*snapshotpb.SourceCheckpoint{{CheckpointId: start}},
			OperatorCheckpoints: []*snapshotpb.OperatorCheckpoint{{CheckpointId: start, OperatorId: "o1", DkvFileUri: "o1/checkpoints"}}})
		loc.Write(snapPath(start), strings.NewReader(string(data)))
	}
	events := make(chan string, 8)
	retained := make(chan []uint64, 8)
	store := snapshots.NewStore(&snapshots.NewStoreParams{FileStore: loc, SavepointsPath: "savepoints", CheckpointsPath: "checkpoints",
		CheckpointEvents: events, RetainedCheckpointsUpdated: retained})
	store.RegisterSourceSplitter(&splitter{})
	if err := store.LoadCheckpoint(); err != nil {
		c.Failf("LoadCheckpoint: %v", err)
	}
	checkCrash(c, snapshotFiles(), "start")
	prev := start
	for i := 0; i < p.n; i++ {
		id := drive(store, false)
		if id <= prev {
			c.FailSig("id-not-increasing", "checkpoint id %d follows %d", id, prev)
		}
		<-events
		c.Op("checkpoint %d written", id)
		// the new file is written, the obsolete one may or may not be removed yet: both file sets
		// are crash points. Wait for the asynchronous removal and notification deterministically.
		cur := snapshotFiles()
		withOld := map[string][]byte{}
		for k, v := range cur {
			withOld[k] = v
		}
		if prev > 0 {
			if _, ok := withOld[snapPath(prev)]; !ok {
				// already removed: reconstruct the crash point just before the removal
				withOld[snapPath(prev)] = mustSnap(prev)
			}
			checkCrash(c, withOld, fmt.Sprintf("write of checkpoint %d (obsolete checkpoint %d not yet removed)", id, prev))
			deadline := time.Now().Add(20 * time.Second)
			for {
				if _, err := loc.Read(snapPath(prev)); err != nil {
					break
				}
				if time.Now().After(deadline) {
					c.FailSig("obsolete-not-removed", "obsolete snapshot of checkpoint %d was not removed", prev)
				}
				time.Sleep(50 * time.Microsecond)
			}
			ids := <-retained
			if len(ids) != 1 || ids[0] != id {
				c.FailSig("wrong-retained-notification", "after checkpoint %d completed the operators are told to retain %v", id, ids)
			}
		}
		checkCrash(c, snapshotFiles(), fmt.Sprintf("removal of obsolete checkpoint %d", prev))
		if cc := store.CurrentCheckpoint(); cc == nil || cc.Id != id {
			c.Failf("CurrentCheckpoint = %v after checkpoint %d", cc, id)
		}
		prev = id
	}
}

func mustSnap(id uint64) []byte {
	data, _ := gproto.Marshal(&snapshotpb.JobCheckpoint{Id: id, SourceCheckpoints: []*snapshotpb.SourceCheckpoint{{CheckpointId: id}},
		OperatorCheckpoints: []*snapshotpb.OperatorCheckpoint{{CheckpointId: id, OperatorId: "o1", DkvFileUri: "o1/checkpoints"}}})
	return data
}

type overlapParams struct {
	n         int
	savepoint bool // one of the checkpoints is started by CreateSavepoint
	failWrite bool // the write of one snapshot file (enumerated: the k-th in time) fails
}

func overlapBody(c *mc.Ctx) {
	p := c.Param.(overlapParams)
	start := []uint64{0, 5, 62}[c.Choose(3)]
	spAt := -1
	if p.savepoint {
		spAt = c.Choose(p.n)
	}
	failAt := -1
	if p.failWrite {
		failAt = c.Choose(p.n)
	}
	c.Op("[first new checkpoint id %d, %d checkpoints created back to back, savepoint: %d, failing snapshot write: %d]", start+1, p.n, spAt, failAt)
	loc := jobh.NewMemLoc()
	snapWrites := 0
	failed := map[string]bool{}
	loc.FailWrite = func(path string) error {
		if !strings.HasPrefix(path, "checkpoints/") || !strings.HasSuffix(path, ".snapshot") {
			return nil
		}
		snapWrites++
		if snapWrites-1 == failAt {
			failed[path] = true
			return fmt.Errorf("injected: storage refuses the write of %s", path)
		}
		return nil
	}
	loc.Files["o1/checkpoints"] = []byte(`{"checkpoints":[{"id":1,"wals":[],"levels":[]}]}`)
	if start > 0 {
		loc.Files[snapPath(start)] = mustSnap(start)
	}
	type opRec struct {
		op    string
		files map[string][]byte
	}
	var log []opRec
	loc.OnOp = func(op string) { log = append(log, opRec{op, loc.Snapshot()}) }
	events := make(chan string, 16)
	retained := make(chan []uint64, 16)
	store := snapshots.NewStore(&snapshots.NewStoreParams{FileStore: loc, SavepointsPath: "savepoints", CheckpointsPath: "checkpoints",
		CheckpointEvents: events, RetainedCheckpointsUpdated: retained, ErrChan: make(chan error, 16)})
	store.RegisterSourceSplitter(&splitter{})
	if err := store.LoadCheckpoint(); err != nil {
		c.Failf("LoadCheckpoint: %v", err)
	}
	var curSeen []uint64
	var ids []uint64
	schedh.Run(c, schedh.Opts{MaxSteps: 4000, NoAdvanceAlt: true}, func() {
		for i := 0; i < p.n; i++ {
			ids = append(ids, drive(store, i == spAt)) // the next checkpoint starts as soon as this one is complete
			if cc := store.CurrentCheckpoint(); cc != nil {
				curSeen = append(curSeen, cc.Id)
			}
		}
		shim.Sleep(time.Second) // every publication goroutine has finished
		if cc := store.CurrentCheckpoint(); cc != nil {
			curSeen = append(curSeen, cc.Id)
		}
	})
	var ops []string
	for _, r := range log {
		ops = append(ops, r.op)
	}
	var notified []uint64
	for len(retained) > 0 {
		n := <-retained
		notified = append(notified, n...)
	}
	c.Op("storage operations: %v; retained notifications %v; CurrentCheckpoint over time %v", ops, notified, curSeen)
	// crash after every storage operation
	published := uint64(start)
	overlapped := false
	pendingWrites := 0
	for _, r := range log {
		if strings.HasPrefix(r.op, "write ") {
			for _, id := range ids {
				if r.op == "write "+snapPath(id) {
					if id < published {
						overlapped = true
					}
					published = max(published, id)
				}
			}
			pendingWrites++
		}
		if strings.HasPrefix(r.op, "remove ") {
			if r.op == "remove "+snapPath(published) {
				c.FailSig("newest-checkpoint-removed", "`%s` deletes the newest published checkpoint %d (storage operations so far: %v)", r.op, published, ops)
			}
		}
		checkCrash(c, r.files, r.op)
	}
	for i := 1; i < len(curSeen); i++ {
		if curSeen[i] < curSeen[i-1] {
			c.FailSig("current-goes-backwards", "CurrentCheckpoint went from %d back to %d", curSeen[i-1], curSeen[i])
		}
	}
	// the newest checkpoint whose snapshot file was actually written (a failed write publishes nothing)
	last := start
	for _, id := range ids {
		if !failed[snapPath(id)] {
			last = max(last, id)
		}
	}
	if last > 0 {
		if len(curSeen) == 0 || curSeen[len(curSeen)-1] != last {
			c.FailSig("current-not-newest", "after checkpoints %v were created (snapshot writes that failed: %v) CurrentCheckpoint is %v, the newest written checkpoint is %d", ids, failed, curSeen, last)
		}
		if _, err := loc.Read(snapPath(last)); err != nil {
			c.FailSig("newest-checkpoint-removed", "the snapshot of the newest written checkpoint %d does not exist at the end (storage operations: %v)", last, ops)
		}
	}
	for i := 1; i < len(notified); i++ {
		if notified[i] < notified[i-1] {
			c.FailSig("retention-names-older", "operators are told to retain %d after having been told %d", notified[i], notified[i-1])
		}
	}
	for _, n := range notified {
		if failed[snapPath(n)] {
			c.FailSig("retention-names-unwritten", "operators are told to retain only checkpoint %d, whose snapshot file could not be written (storage operations: %v)", n, ops)
		}
	}
	if len(notified) > 0 && notified[len(notified)-1] != last {
		c.FailSig("retention-names-older", "the last retained notification names %d, the newest written checkpoint is %d", notified[len(notified)-1], last)
	}
	if len(failed) > 0 {
		c.Note("executions_with_a_failed_snapshot_write")
		c.Nontrivial(fmt.Sprint(start, ops))
	}
	if overlapped {
		c.Note("executions_with_overlapping_publications")
		c.Nontrivial(fmt.Sprint(start, ops))
	}
	c.Outcome(fmt.Sprint(start, ops, notified))
}
