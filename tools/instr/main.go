// instr: prototype AST instrumenter. Loads repo packages with types, rewrites
// concurrency constructs to shim calls, writes files + overlay json.
package main

import (
	"bytes"
	"encoding/json"
	"flag"
	"fmt"
	"go/ast"
	"go/format"
	"go/parser"
	"go/token"
	"go/types"
	"os"
	"path/filepath"
	"strconv"
	"strings"

	"golang.org/x/tools/go/ast/astutil"
	"golang.org/x/tools/go/packages"
)

var shimPath = flag.String("shim", "verif.local/mc/shim", "import path of shim root package")
var mode = flag.String("mode", "sched", "plain: only rand/tuning hooks; sched: full concurrency instrumentation")
var addDir = flag.String("add", "", "directory with files to add to repository packages (mirrors repo layout)")

type rewriter struct {
	pkg      *packages.Package
	file     *ast.File
	usedShim bool
	tmp      int
	inSelect map[ast.Node]bool // comm statements handled by select rewrite
	injected bool
}

func (r *rewriter) shimCall(fn string, args ...ast.Expr) *ast.CallExpr {
	r.usedShim = true
	return &ast.CallExpr{Fun: &ast.SelectorExpr{X: ast.NewIdent("vshim"), Sel: ast.NewIdent(fn)}, Args: args}
}

func (r *rewriter) fresh(prefix string) *ast.Ident {
	r.tmp++
	return ast.NewIdent(fmt.Sprintf("_v%s%d", prefix, r.tmp))
}

func (r *rewriter) isChan(e ast.Expr) bool {
	t := r.pkg.TypesInfo.TypeOf(e)
	if t == nil {
		return false
	}
	_, ok := t.Underlying().(*types.Chan)
	return ok
}

func isRecv(e ast.Expr) (*ast.UnaryExpr, bool) {
	for {
		p, ok := e.(*ast.ParenExpr)
		if !ok {
			break
		}
		e = p.X
	}
	u, ok := e.(*ast.UnaryExpr)
	if ok && u.Op == token.ARROW {
		return u, true
	}
	return nil, false
}

func funcLit(body ...ast.Stmt) *ast.FuncLit {
	return &ast.FuncLit{Type: &ast.FuncType{Params: &ast.FieldList{}}, Body: &ast.BlockStmt{List: body}}
}

// rewriteSelect turns a select statement into a block with a switch over shim.Select.
func (r *rewriter) rewriteSelect(sel *ast.SelectStmt, label *ast.Ident) ast.Stmt {
	var pre []ast.Stmt
	var handles []ast.Expr
	var cases []ast.Stmt
	hasDefault := false
	idx := 0
	for _, c := range sel.Body.List {
		cc := c.(*ast.CommClause)
		if cc.Comm == nil {
			hasDefault = true
			cases = append(cases, &ast.CaseClause{List: nil, Body: cc.Body})
			continue
		}
		var bodyPrefix []ast.Stmt
		switch s := cc.Comm.(type) {
		case *ast.SendStmt:
			h := r.fresh("h")
			pre = append(pre, &ast.AssignStmt{Lhs: []ast.Expr{h}, Tok: token.DEFINE, Rhs: []ast.Expr{r.shimCall("SendCase", s.Chan, s.Value)}})
			handles = append(handles, h)
		case *ast.ExprStmt:
			u, ok := isRecv(s.X)
			if !ok {
				panic("select: unexpected expr comm")
			}
			h := r.fresh("h")
			pre = append(pre, &ast.AssignStmt{Lhs: []ast.Expr{h}, Tok: token.DEFINE, Rhs: []ast.Expr{r.shimCall("RecvCase", u.X)}})
			handles = append(handles, h)
		case *ast.AssignStmt:
			u, ok := isRecv(s.Rhs[0])
			if !ok {
				panic("select: unexpected assign comm")
			}
			h := r.fresh("h")
			pre = append(pre, &ast.AssignStmt{Lhs: []ast.Expr{h}, Tok: token.DEFINE, Rhs: []ast.Expr{r.shimCall("RecvCase", u.X)}})
			handles = append(handles, h)
			rhs := []ast.Expr{&ast.CallExpr{Fun: &ast.SelectorExpr{X: h, Sel: ast.NewIdent("Val")}}}
			if len(s.Lhs) == 2 {
				rhs = append(rhs, &ast.CallExpr{Fun: &ast.SelectorExpr{X: h, Sel: ast.NewIdent("OK")}})
			}
			bodyPrefix = append(bodyPrefix, &ast.AssignStmt{Lhs: s.Lhs, Tok: s.Tok, Rhs: rhs})
			// silence "declared and not used" if the original body ignores ok/val? original must use them.
		default:
			panic(fmt.Sprintf("select: unexpected comm %T", s))
		}
		cases = append(cases, &ast.CaseClause{
			List: []ast.Expr{&ast.BasicLit{Kind: token.INT, Value: strconv.Itoa(idx)}},
			Body: append(bodyPrefix, cc.Body...),
		})
		idx++
	}
	hd := ast.NewIdent("false")
	if hasDefault {
		hd = ast.NewIdent("true")
	}
	args := append([]ast.Expr{hd}, handles...)
	var sw ast.Stmt = &ast.SwitchStmt{Tag: r.shimCall("Select", args...), Body: &ast.BlockStmt{List: cases}}
	if label != nil {
		sw = &ast.LabeledStmt{Label: label, Stmt: sw}
	}
	return &ast.BlockStmt{List: append(pre, sw)}
}

func (r *rewriter) rewriteGo(g *ast.GoStmt) ast.Stmt {
	call := g.Call
	if fl, ok := call.Fun.(*ast.FuncLit); ok && len(call.Args) == 0 {
		return &ast.ExprStmt{X: r.shimCall("Go", fl)}
	}
	// general: bind function value and simple args now
	var pre []ast.Stmt
	f := r.fresh("f")
	pre = append(pre, &ast.AssignStmt{Lhs: []ast.Expr{f}, Tok: token.DEFINE, Rhs: []ast.Expr{call.Fun}})
	var args []ast.Expr
	for _, a := range call.Args {
		switch a.(type) {
		case *ast.BasicLit:
			args = append(args, a)
		default:
			v := r.fresh("a")
			pre = append(pre, &ast.AssignStmt{Lhs: []ast.Expr{v}, Tok: token.DEFINE, Rhs: []ast.Expr{a}})
			args = append(args, v)
		}
	}
	inner := &ast.CallExpr{Fun: f, Args: args, Ellipsis: call.Ellipsis}
	pre = append(pre, &ast.ExprStmt{X: r.shimCall("Go", funcLit(&ast.ExprStmt{X: inner}))})
	return &ast.BlockStmt{List: pre}
}

// injections: statements added at the start of named functions ("return db" hooks are
// handled separately for dkv.New). The called helpers live in overlay-added files.
var injections = []struct{ pkg, fn, code string }{
	{"reduction.dev/reduction/dkv", "New", "verifTuneOptions(&options)"},
	{"reduction.dev/reduction/dkv/storage", "NewFileSystemFromLocation", "if vfs, ok := verifLookupFS(location); ok { return vfs, nil }"},
}

func parseStmts(code string) []ast.Stmt {
	f, err := parser.ParseFile(token.NewFileSet(), "", "package p\nfunc _() {\n"+code+"\n}", 0)
	if err != nil {
		panic("instr: bad injection snippet: " + err.Error())
	}
	return f.Decls[0].(*ast.FuncDecl).Body.List
}

// stripPos clears positions so that the printer lays the injected nodes out afresh.
func stripPos(n ast.Node) {
	ast.Inspect(n, func(x ast.Node) bool {
		switch v := x.(type) {
		case *ast.Ident:
			v.NamePos = 0
		case *ast.BasicLit:
			v.ValuePos = 0
		case *ast.CallExpr:
			v.Lparen, v.Rparen = 0, 0
		case *ast.IfStmt:
			v.If = 0
		case *ast.BlockStmt:
			v.Lbrace, v.Rbrace = 0, 0
		case *ast.ReturnStmt:
			v.Return = 0
		case *ast.AssignStmt:
			v.TokPos = 0
		case *ast.UnaryExpr:
			v.OpPos = 0
		}
		return true
	})
}

// inject adds verification hook calls into named functions.
func (r *rewriter) inject() {
	for _, d := range r.file.Decls {
		fd, ok := d.(*ast.FuncDecl)
		if !ok || fd.Recv != nil || fd.Body == nil {
			continue
		}
		for _, inj := range injections {
			if inj.pkg != r.pkg.PkgPath || inj.fn != fd.Name.Name {
				continue
			}
			stmts := parseStmts(inj.code)
			for _, st := range stmts {
				stripPos(st)
			}
			body := append(stmts, fd.Body.List...)
			if inj.pkg == "reduction.dev/reduction/dkv" && inj.fn == "New" {
				injectedRet := false
				var nb []ast.Stmt
				for _, st := range body {
					if ret, ok := st.(*ast.ReturnStmt); ok && len(ret.Results) == 1 {
						if id, ok := ret.Results[0].(*ast.Ident); ok && id.Name == "db" {
							nb = append(nb, &ast.ExprStmt{X: &ast.CallExpr{Fun: ast.NewIdent("verifTuneDB"), Args: []ast.Expr{ast.NewIdent("db")}}})
							injectedRet = true
						}
					}
					nb = append(nb, st)
				}
				if !injectedRet {
					panic("instr: dkv.New has no `return db` to hook")
				}
				body = nb
			}
			fd.Body.List = body
			r.injected = true
		}
	}
}

func (r *rewriter) rewriteRand() {
	if r.pkg.PkgPath != "reduction.dev/reduction/dkv/ziptree" {
		return
	}
	for _, imp := range r.file.Imports {
		p, _ := strconv.Unquote(imp.Path.Value)
		if p == "math/rand/v2" {
			imp.Path.Value = strconv.Quote(*shimPath + "/rand")
			if imp.Name == nil {
				imp.Name = ast.NewIdent("rand")
			}
		}
	}
}

// entryPointPkgs: packages whose methods get a scheduling point at entry (sched mode). Points
// normally sit at synchronisation operations only, so a critical section whose lock has been
// removed would run atomically and look correct; with a point at every method entry the bodies
// of concurrent callers interleave at call granularity whether or not they lock.
var entryPointPkgs = map[string]bool{
	"reduction.dev/reduction/batching":          true,
	"reduction.dev/reduction/storage/snapshots": true,
}

func (r *rewriter) entryPoints() {
	if !entryPointPkgs[r.pkg.PkgPath] {
		return
	}
	for _, d := range r.file.Decls {
		fd, ok := d.(*ast.FuncDecl)
		if !ok || fd.Recv == nil || fd.Body == nil || len(fd.Body.List) == 0 {
			continue
		}
		call := &ast.ExprStmt{X: r.shimCall("Point", &ast.BasicLit{Kind: token.STRING, Value: strconv.Quote("call:" + fd.Name.Name)})}
		fd.Body.List = append([]ast.Stmt{call}, fd.Body.List...)
	}
}

func (r *rewriter) run() {
	r.inject()
	r.rewriteRand()
	if *mode == "plain" {
		return
	}
	r.entryPoints()
	// pass 1: statements (select, go, send, range, comma-ok recv)
	// (post-order: a select nested in the body of another select's case is rewritten first, and
	// the outer rewrite then copies the already rewritten body)
	astutil.Apply(r.file, nil, func(c *astutil.Cursor) bool {
		switch n := c.Node().(type) {
		case *ast.LabeledStmt:
			if sel, ok := n.Stmt.(*ast.SelectStmt); ok {
				c.Replace(r.rewriteSelect(sel, n.Label))
			}
		case *ast.SelectStmt:
			if _, labeled := c.Parent().(*ast.LabeledStmt); labeled {
				return true // rewritten together with its label
			}
			c.Replace(r.rewriteSelect(n, nil))
		}
		return true
	})
	astutil.Apply(r.file, nil, func(c *astutil.Cursor) bool {
		switch n := c.Node().(type) {
		case *ast.GoStmt:
			c.Replace(r.rewriteGo(n))
		case *ast.SendStmt:
			ch := n.Chan
			c.Replace(&ast.ExprStmt{X: r.shimCall("Send", ch, funcLit(n))})
		case *ast.RangeStmt:
			if r.isChan(n.X) {
				n.X = r.shimCall("RangeChan", n.X)
			}
		case *ast.AssignStmt:
			if len(n.Lhs) == 2 && len(n.Rhs) == 1 {
				if u, ok := isRecv(n.Rhs[0]); ok {
					n.Rhs[0] = r.shimCall("Recv2", u.X)
				}
			}
		case *ast.ValueSpec:
			if len(n.Names) == 2 && len(n.Values) == 1 {
				if u, ok := isRecv(n.Values[0]); ok {
					n.Values[0] = r.shimCall("Recv2", u.X)
				}
			}
		case *ast.CallExpr:
			if sel, ok := n.Fun.(*ast.SelectorExpr); ok {
				if id, ok := sel.X.(*ast.Ident); ok && id.Name == "time" {
					if pn, ok := r.pkg.TypesInfo.Uses[id].(*types.PkgName); ok && pn.Imported().Path() == "time" {
						switch sel.Sel.Name {
						case "AfterFunc", "NewTicker", "NewTimer", "After", "Sleep":
							r.usedShim = true
							n.Fun = &ast.SelectorExpr{X: ast.NewIdent("vshim"), Sel: ast.NewIdent(sel.Sel.Name)}
						}
					}
				}
			}
		}
		return true
	})
	// pass 2: remaining receive expressions
	astutil.Apply(r.file, func(c *astutil.Cursor) bool {
		if u, ok := c.Node().(*ast.UnaryExpr); ok && u.Op == token.ARROW {
			c.Replace(r.shimCall("Recv", u.X))
		}
		return true
	}, nil)
	// imports
	for _, imp := range r.file.Imports {
		p, _ := strconv.Unquote(imp.Path.Value)
		switch p {
		case "sync":
			imp.Path.Value = strconv.Quote(*shimPath + "/sync")
			if imp.Name == nil {
				imp.Name = ast.NewIdent("sync")
			}
		case "sync/atomic":
			imp.Path.Value = strconv.Quote(*shimPath + "/atomic")
			if imp.Name == nil {
				imp.Name = ast.NewIdent("atomic")
			}
		case "golang.org/x/sync/errgroup":
			imp.Path.Value = strconv.Quote(*shimPath + "/errgroup")
		}
	}
	if r.usedShim {
		astutil.AddNamedImport(r.pkg.Fset, r.file, "vshim", *shimPath)
	}
}

func main() {
	dir := flag.String("dir", "/repo", "module dir")
	out := flag.String("out", "", "output dir")
	baseOverlay := flag.String("overlay", "", "existing overlay json (generated pb code)")
	flag.Parse()

	var ov struct{ Replace map[string]string }
	ov.Replace = map[string]string{}
	cfg := &packages.Config{
		Mode: packages.NeedName | packages.NeedFiles | packages.NeedCompiledGoFiles | packages.NeedSyntax | packages.NeedTypes | packages.NeedTypesInfo | packages.NeedImports | packages.NeedDeps,
		Dir:  *dir,
	}
	if *baseOverlay != "" {
		data, err := os.ReadFile(*baseOverlay)
		if err != nil {
			panic(err)
		}
		json.Unmarshal(data, &ov)
		cfg.Overlay = map[string][]byte{}
		for k, v := range ov.Replace {
			b, _ := os.ReadFile(v)
			cfg.Overlay[k] = b
		}
	}
	pkgs, err := packages.Load(cfg, flag.Args()...)
	if err != nil {
		panic(err)
	}
	nfiles := 0
	for _, p := range pkgs {
		if len(p.Errors) > 0 {
			fmt.Fprintln(os.Stderr, "package errors:", p.PkgPath, p.Errors)
			os.Exit(2)
		}
		for i, f := range p.Syntax {
			fname := p.CompiledGoFiles[i]
			if !strings.HasPrefix(fname, *dir+"/") || strings.HasSuffix(fname, ".pb.go") || strings.HasSuffix(fname, ".connect.go") {
				continue
			}
			if _, generated := ov.Replace[fname]; generated {
				continue
			}
			r := &rewriter{pkg: p, file: f}
			before := nodeString(p.Fset, f)
			r.run()
			after := nodeString(p.Fset, f)
			if before == after {
				continue
			}
			rel, _ := filepath.Rel(*dir, fname)
			dst := filepath.Join(*out, rel)
			os.MkdirAll(filepath.Dir(dst), 0o755)
			if err := os.WriteFile(dst, []byte(after), 0o644); err != nil {
				panic(err)
			}
			ov.Replace[fname] = dst
			nfiles++
		}
	}
	if *addDir != "" {
		filepath.Walk(*addDir, func(path string, info os.FileInfo, err error) error {
			if err != nil || info.IsDir() || !strings.HasSuffix(path, ".go") {
				return err
			}
			rel, _ := filepath.Rel(*addDir, path)
			if *mode == "plain" && strings.Contains(filepath.Base(rel), "_sched") {
				return nil
			}
			ov.Replace[filepath.Join(*dir, rel)] = path
			return nil
		})
	}
	data, _ := json.MarshalIndent(ov, "", " ")
	os.WriteFile(filepath.Join(*out, "overlay.json"), data, 0o644)
	fmt.Printf("instr: rewrote %d files\n", nfiles)
}

func nodeString(fset *token.FileSet, n ast.Node) string {
	var buf bytes.Buffer
	if err := format.Node(&buf, fset, n); err != nil {
		panic(err)
	}
	return buf.String()
}
