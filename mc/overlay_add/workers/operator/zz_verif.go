package operator

// Added by the verification overlay (never part of /repo): exported constructors for
// unexported pieces that harnesses drive directly.

import (
	"reduction.dev/reduction/dkv/kv"
	"reduction.dev/reduction/partitioning"
	"reduction.dev/reduction/proto"
)

// VerifNewOperatorPartition builds the real data-ownership policy of an operator.
func VerifNewOperatorPartition(own partitioning.KeyGroupRange, neighborRanges []partitioning.KeyGroupRange, neighborOps []proto.Operator) kv.DataOwnership {
	ns := make([]neighborPartition, len(neighborRanges))
	for i := range neighborRanges {
		ns[i] = neighborPartition{keyGroupRange: neighborRanges[i], operator: neighborOps[i]}
	}
	return newOperatorPartition(own, ns)
}

// VerifDump renders the per-key-group cache state of a timer store.
func (s *TimerStore) VerifDump() string {
	out := ""
	for i := 0; ; i++ {
		p, ok := s.verifPartition(i)
		if !ok {
			break
		}
		out += p.cache.VerifDump()
		if p.allDataInCache {
			out += "A"
		}
		out += "|"
	}
	return out
}

func (s *TimerStore) verifPartition(i int) (*KeyGroupPriorityQueue, bool) {
	ps := s.priorityQueue.VerifPartitions()
	if i >= len(ps) {
		return nil, false
	}
	return ps[i].(*KeyGroupPriorityQueue), true
}
