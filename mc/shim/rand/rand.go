// Package rand replaces math/rand/v2 in dkv/ziptree (overlay import rewrite): zip-tree
// ranks become an explorer-owned choice (C19) or a deterministic stream (elsewhere).
package rand

import (
	"sync"

	"verif.local/mc/shim"
)

var (
	mu    sync.Mutex
	state uint64 = 0x9E3779B97F4A7C15
)

// Reset restarts the global deterministic stream (called per execution by schedulers).
func Reset() { mu.Lock(); state = 0x9E3779B97F4A7C15; mu.Unlock() }

func Uint32() uint32 {
	if l := shim.GetLocal(); l != nil && l.Rank != nil {
		return l.Rank()
	}
	mu.Lock()
	defer mu.Unlock()
	// splitmix64
	state += 0x9E3779B97F4A7C15
	z := state
	z = (z ^ (z >> 30)) * 0xBF58476D1CE4E5B9
	z = (z ^ (z >> 27)) * 0x94D049BB133111EB
	z ^= z >> 31
	return uint32(z)
}

// Stream returns a deterministic per-execution rank source.
func Stream(seed uint64) func() uint32 {
	s := seed*0x9E3779B97F4A7C15 + 1
	return func() uint32 {
		s += 0x9E3779B97F4A7C15
		z := s
		z = (z ^ (z >> 30)) * 0xBF58476D1CE4E5B9
		z = (z ^ (z >> 27)) * 0x94D049BB133111EB
		z ^= z >> 31
		// geometric-ish small ranks so that ties and deep trees both occur
		return uint32(z % 4)
	}
}
