package c09

import (
	"bytes"
	"context"
	"errors"
	"fmt"
	"io"
	"os"
	"runtime"
	"runtime/debug"
	"sort"
	"strings"
	"time"

	"reduction.dev/reduction/dkv"
	"reduction.dev/reduction/dkv/recovery"
	"reduction.dev/reduction/dkv/storage"
	"reduction.dev/reduction/partitioning"
	"reduction.dev/reduction/proto"
	"reduction.dev/reduction/workers/operator"
	"verif.local/mc/harness/dkvh"
	"verif.local/mc/mc"
	"verif.local/mc/shim"
)

// Neighbour tier: one old operator A writes tables spanning all key groups and checkpoints;
// N new operators restore from A's checkpoint with the real OperatorPartition ownership, so
// they share A's tables. Each new operator's view of its neighbours answers NeedsTable in one
// of three ways: truthfully (the neighbour's real DB.NeedsTable), with an error, or by hanging
// until the call is cancelled.

const (
	ansReal = iota
	ansError
	ansHang
)

var ansName = []string{"answers", "errors", "hangs"}

type nbOp struct {
	proto.UnimplementedOperator
	target      **dkv.DB
	targetAlias string
	mode        int
	release     chan struct{}
	asked       *int
}

func (n *nbOp) NeedsTable(ctx context.Context, uri string) (bool, error) {
	*n.asked++
	switch n.mode {
	case ansError:
		return false, errors.New("neighbour unreachable")
	case ansHang:
		select {
		case <-ctx.Done():
			return false, ctx.Err()
		case <-n.release:
			return false, errors.New("neighbour hung up")
		}
	}
	raw := stripAnyAlias(uri)
	return (*n.target).NeedsTable(raw) || (*n.target).NeedsTable(memScheme+n.targetAlias+"/"+strings.TrimPrefix(raw, memScheme)), nil
}

// aliasFS gives one simulated operator process its own names for files it did not write
// itself: URIs found in a checkpoints file read through the alias are rewritten to
// memory:///@opN/..., and opening such a URI reaches the shared file. Real operators run in
// different processes; without distinct names the process-wide bookkeeping of table files in
// dkv/sst would see all simulated operators as one process and never consult NeedsTable.
type aliasFS struct {
	inner *dkvh.FS
	alias string // "@op0"
}

const memScheme = "memory:///"

func (f *aliasFS) strip(path string) (string, bool) {
	pre := memScheme + f.alias + "/"
	if strings.HasPrefix(path, pre) {
		return memScheme + strings.TrimPrefix(path, pre), true
	}
	return path, false
}

func stripAnyAlias(uri string) string {
	if strings.HasPrefix(uri, memScheme+"@") {
		rest := strings.TrimPrefix(uri, memScheme)
		if i := strings.IndexByte(rest, '/'); i >= 0 {
			return memScheme + rest[i+1:]
		}
	}
	return uri
}

func (f *aliasFS) New(path string) storage.File { return f.inner.New(path) }
func (f *aliasFS) Copy(a, b string) error       { return f.inner.Copy(a, b) }
func (f *aliasFS) Open(path string) storage.File {
	raw, aliased := f.strip(path)
	if !aliased {
		return f.inner.Open(path)
	}
	return &aliasFile{File: f.inner.Open(raw), uri: path, alias: f.alias, rewrite: strings.HasSuffix(raw, "/checkpoints")}
}

type aliasFile struct {
	storage.File
	uri, alias string
	rewrite    bool
	data       []byte
}

func (a *aliasFile) URI() string { return a.uri }
func (a *aliasFile) ReadAt(p []byte, off int64) (int, error) {
	if !a.rewrite {
		return a.File.ReadAt(p, off)
	}
	if a.data == nil {
		raw, err := io.ReadAll(&storage.Cursor{File: a.File})
		if err != nil {
			return 0, err
		}
		a.data = bytes.ReplaceAll(raw, []byte(memScheme), []byte(memScheme+a.alias+"/"))
	}
	if off >= int64(len(a.data)) {
		return 0, io.EOF
	}
	n := copy(p, a.data[off:])
	if n < len(p) {
		return n, io.EOF
	}
	return n, nil
}

func kgKey(kg int) string { return string([]byte{byte(kg >> 8), byte(kg)}) + "k" }

type nparams struct {
	depth, n, groups int
	// redeployedTwice fixes the configuration to: the old operator had been restored from its
	// checkpoint before and is redeployed as op0 in the same process, every neighbour answers
	redeployedTwice bool
	// pendingCheckpoint fixes: every neighbour answers, the old operator's process is gone, and
	// the history starts with operator 0 compacting the shared tables away and a job checkpoint
	pendingCheckpoint bool
}

// gcBarrierTimeout is gcBarrier that gives up when the cleanup goroutine is stuck in a
// hanging neighbour call (then no cleanup can run, so nothing can be deleted either).
var gcCount int

func gcBarrierTimeout(rounds int) (stuck bool) {
	gcCount++
	if gcCount%200 == 0 && os.Getenv("C09_DEBUG") != "" {
		var ms runtime.MemStats
		runtime.ReadMemStats(&ms)
		fmt.Fprintf(os.Stderr, "gc#%d heapAlloc=%dMB objects=%d goroutines=%d\n", gcCount, ms.HeapAlloc>>20, ms.HeapObjects, runtime.NumGoroutine())
	}
	for i := 0; i < rounds; i++ {
		done := make(chan struct{})
		func() {
			s := new([64]byte)
			runtime.AddCleanup(s, func(c chan struct{}) { close(c) }, done)
		}()
		runtime.GC()
		select {
		case <-done:
		case <-time.After(400 * time.Millisecond):
			return true
		}
	}
	return false
}

type opState struct {
	db       *dkv.DB
	ref      dkvh.Ref
	dir      string
	rng      partitioning.KeyGroupRange
	retained []handle // what this operator has been told to retain (plus what it created since)
	keys     []string
}

//go:noinline
func openNew(o dkvh.Options, fs storage.FileSystem, own interface {
	OwnsKey([]byte) bool
	ExclusivelyOwnsTable(string, []byte, []byte) (bool, error)
}, h recovery.CheckpointHandle) *dkv.DB {
	opts := o.DBOptions(fs)
	opts.DataOwnership = own
	db := dkv.Open(opts, []recovery.CheckpointHandle{h})
	db.WaitOnTasks()
	return db
}

//go:noinline
func oldOperator(c *mc.Ctx, o dkvh.Options, root *dkvh.FS, base string, groups int) (handle, dkvh.Ref, *dkv.DB) {
	a := dkv.Open(o.DBOptions(root.WithWorkingDir(base+"/a")), nil)
	ref := dkvh.Ref{}
	for round := 0; round < 2; round++ {
		for kg := 0; kg < groups; kg++ {
			v := fmt.Sprintf("a%d", round)
			a.Put([]byte(kgKey(kg)), []byte(v))
			ref[kgKey(kg)] = v
		}
	}
	a.WaitOnTasks()
	h, err := a.Checkpoint(1)()
	if err != nil {
		c.Failf("old operator checkpoint: %v", err)
	}
	return handle{1, h, ref.Clone(), base + "/a"}, ref, a
}

func neighbors(c *mc.Ctx) {
	p := c.Param.(nparams)
	if os.Getenv("C09_DEBUG") != "" {
		t0 := mc.Wall()
		defer func() { fmt.Fprintf(os.Stderr, "%.0fms %v\n", (mc.Wall()-t0)*1000, c.Ops()) }()
	}
	old := debug.SetGCPercent(-1)
	defer debug.SetGCPercent(old)
	o := dkvh.Options{Mem: 40, Table: 64, L0: 2, Smallest: 4500, Ampl: 50}
	dkvh.Tune(o)
	defer shim.SetLocal(nil)
	root := dkvh.NewFS()
	release := make(chan struct{})
	defer close(release)
	asked := 0

	execSeq++
	base := fmt.Sprintf("/x%d", execSeq)
	// with n key groups per new operator plus one, the old tables straddle the new ranges; with
	// a multiple of three per operator they tend to lie wholly inside one new range
	p.groups = []int{p.groups, 3 * p.n}[c.Choose(2)]
	hA, refA, oldDB := oldOperator(c, o, root, base, p.groups)
	// where did the old operator go? 0: its process is gone (its objects are never collected);
	// 1: it was redeployed as new operator 0 in the same process (its database object is
	// dropped, and operator 0 shares the process-wide file bookkeeping with it)
	sameProcess := p.redeployedTwice || (!p.pendingCheckpoint && c.Choose(2) == 1)
	if sameProcess {
		oldDB = nil
	}
	defer runtime.KeepAlive(oldDB)
	// had the old operator itself been restored from that checkpoint before (as the only operator
	// of its job, owning every key group)? Then the process holds a generation of table objects
	// loaded from the checkpoint document whose ownership check answers "exclusively mine"
	// without asking anyone; they become garbage when the operator is redeployed as op0.
	var prevGen *dkv.DB
	if sameProcess && (p.redeployedTwice || c.Choose(2) == 1) {
		full := partitioning.KeyGroupRange{Start: 0, End: p.groups}
		prevGen = openNew(o, root.WithWorkingDir(base+"/a"), operator.VerifNewOperatorPartition(full, nil, nil), hA.h)
	}
	hadPrevGen := prevGen != nil
	ranges := partitioning.NewKeySpace(p.groups, p.n).KeyGroupRanges()
	ops := make([]*opState, p.n)
	dbs := make([]*dkv.DB, p.n)
	var modes []string
	for i := range ops {
		st := &opState{dir: fmt.Sprintf("%s/b%d", base, i), rng: ranges[i], ref: dkvh.Ref{}}
		for kg := ranges[i].Start; kg < ranges[i].End; kg++ {
			st.keys = append(st.keys, kgKey(kg))
			st.ref[kgKey(kg)] = refA[kgKey(kg)]
		}
		st.retained = []handle{{hA.id, hA.h, st.ref.Clone(), hA.dir}}
		ops[i] = st
	}
	for i, st := range ops {
		var nr []partitioning.KeyGroupRange
		var no []proto.Operator
		for j := range ops {
			if j == i {
				continue
			}
			mode := ansReal
			if !p.redeployedTwice && !p.pendingCheckpoint {
				mode = c.Choose(3)
			}
			modes = append(modes, fmt.Sprintf("op%d sees op%d: %s", i, j, ansName[mode]))
			nr = append(nr, ranges[j])
			no = append(no, &nbOp{target: &dbs[j], targetAlias: fmt.Sprintf("@op%d", j), mode: mode, release: release, asked: &asked})
		}
		own := operator.VerifNewOperatorPartition(ranges[i], nr, no)
		alias := fmt.Sprintf("@op%d", i)
		ah := hA.h
		if i == 0 && sameProcess {
			st.db = openNew(o, root.WithWorkingDir(st.dir), own, ah)
		} else {
			ah.URI = memScheme + alias + "/" + strings.TrimPrefix(ah.URI, memScheme)
			st.db = openNew(o, &aliasFS{inner: root.WithWorkingDir(st.dir), alias: alias}, own, ah)
		}
		dbs[i] = st.db
	}
	prevGen = nil // the redeploy replaced the operator's database
	c.Op("[rescale 1->%d, %d key groups; old operator %s%s; %s]", p.n, p.groups, map[bool]string{true: "redeployed as op0", false: "process gone"}[sameProcess],
		map[bool]string{true: " after an earlier restore from the same checkpoint", false: ""}[hadPrevGen], strings.Join(modes, "; "))
	jobCkpt := uint64(1)
	jobOldest := uint64(1) // oldest checkpoint id the job still retains (it announces [newest] to operators one by one)
	stuck := false
	cleanupDeletes := 0
	var deleted []string

	verify := func(after string) {
		if !c.Fresh() {
			root.TakeLog()
			return
		}
		for _, ev := range root.TakeLog() {
			if strings.HasPrefix(ev.Op, "cleanup-delete") {
				cleanupDeletes++
				deleted = append(deleted, rel(strings.TrimPrefix(ev.Op, "cleanup-delete ")))
			}
		}
		files := root.Snapshot()
		if c.Replay {
			var names []string
			for n := range files {
				names = append(names, rel(n))
			}
			sort.Strings(names)
			c.Op("    files: %v; cleanup deleted: %v; NeedsTable calls: %d", names, deleted, asked)
		}
		for i, st := range ops {
			for _, h := range st.retained {
				if h.id < jobOldest {
					continue // the job no longer retains it, this operator just has not been told yet
				}
				doc, ok := files[stripAnyAlias(h.h.URI)]
				if !ok {
					c.FailSig("checkpoint-file-missing", "after %s: checkpoints file %s of checkpoint %d retained by operator %d is gone", after, rel(h.h.URI), h.id, i)
				}
				wals, tables, found := filesOf(doc, h.id)
				if !found {
					c.FailSig("checkpoint-not-in-doc", "after %s: checkpoint %d retained by operator %d is not in %s", after, h.id, i, rel(h.h.URI))
				}
				for _, du := range append(wals, tables...) {
					u := stripAnyAlias(du)
					if _, ok := files[u]; !ok {
						// classify: does the table lie wholly inside the key-group range of one other operator?
						// classify: does the table hold any key group of the retaining operator at all?
						// (ranges of operators are disjoint: a table wholly inside one neighbour's
						// range, or spread over several neighbours' ranges, lies outside its own)
						class, holds := "range-shared", "unknown key groups"
						if r, ok := docRanges[du]; ok && len(r.start) >= 2 && len(r.end) >= 2 {
							tr := partitioning.KeyGroupRangeFromBytes(r.start[:2], r.end[:2])
							holds = "key groups " + tr.String()
							if !st.rng.Overlaps(tr) {
								class = "wholly-outside-the-retaining-operators-range"
							}
						}
						c.FailSig("needed-file-deleted:"+kindOf(u)+":"+class, "after %s: %s (%s), referenced by checkpoint %d that operator %d (range %s) retains, no longer exists (cleanup deleted: %v)", after, rel(u), holds, h.id, i, st.rng, deleted)
					}
				}
			}
			func() {
				defer func() {
					if r := recover(); r != nil {
						txt, ok := dkvh.PanicText(r)
						if !ok {
							panic(r)
						}
						c.FailSig("live-read-panics", "after %s: operator %d: read panics: %s", after, i, txt)
					}
				}()
				dkvh.CheckReads(c, fmt.Sprintf("after %s: operator %d (cleanup deleted: %v)", after, i, deleted), st.db, st.ref, st.keys, nil)
			}()
		}
		if cleanupDeletes > 0 || asked > 0 {
			var names []string
			for n := range files {
				names = append(names, n)
			}
			c.Nontrivial(fmt.Sprint(len(names), modes, asked > 0, jobCkpt, after))
		}
	}
	verify("the rescale")

	nact := 3*p.n + 2
	partial := make([]int, p.n) // checkpoints an operator took for job checkpoints that never completed
	bursts := make([]int, p.n)
	dirty := true // something happened since the last garbage collection
	stateKey := func() string {
		var names []string
		for n := range root.Snapshot() {
			names = append(names, n)
		}
		sort.Strings(names)
		var sb strings.Builder
		fmt.Fprint(&sb, modes, sameProcess, hadPrevGen, partial, rel(fmt.Sprint(names)), jobCkpt, jobOldest, dirty, stuck, bursts)
		for _, st := range ops {
			for _, h := range st.retained {
				fmt.Fprint(&sb, " ", h.id)
			}
			sb.WriteString("|")
		}
		return sb.String()
	}
	var script []int
	if p.pendingCheckpoint {
		// fixed prefix: operator 0 rewrites its keys (compacts the shared tables away), then a job checkpoint
		script = []int{1, 2*p.n + 1}
	}
	for step := 0; step < p.depth+len(script); step++ {
		if step >= len(script) && c.Fresh() && c.Seen(stateKey(), p.depth+len(script)-step) {
			return
		}
		var op int
		if step < len(script) {
			op = script[step]
		} else {
			op = c.Choose(nact + 1)
		}
		switch {
		case op == 0:
			step = p.depth + len(script)
			continue
		case op > 2*p.n+1 && op <= 3*p.n+1:
			// operator i checkpoints for a job checkpoint that never completes (another member does
			// not acknowledge): its database has a newer checkpoint than the one the job retains
			i := op - 2*p.n - 2
			st := ops[i]
			if jobCkpt >= 4 || partial[i] >= 1 {
				continue
			}
			partial[i]++
			dirty = true
			jobCkpt++
			c.Op("checkpoint(op%d, job checkpoint %d never completes)", i, jobCkpt)
			if _, err := st.db.Checkpoint(jobCkpt)(); err != nil {
				c.Failf("operator %d checkpoint: %v", i, err)
			}
			verify(fmt.Sprintf("checkpoint(op%d) of an incomplete job checkpoint", i))
		case op <= p.n: // burst on operator i: rewrites own keys, flushes, compacts
			i := op - 1
			st := ops[i]
			if bursts[i] >= 2 {
				continue
			}
			bursts[i]++
			dirty = true
			c.Op("burst(op%d)", i)
			for r := 0; r < 3; r++ {
				for _, k := range st.keys {
					v := fmt.Sprintf("b%d.%d", bursts[i], r)
					st.db.Put([]byte(k), []byte(v))
					st.ref[k] = v
				}
			}
			st.db.WaitOnTasks()
			verify(fmt.Sprintf("burst(op%d)", i))
		case op <= 2*p.n: // retention notification to operator i: keep only the newest job checkpoint
			i := op - p.n - 1
			st := ops[i]
			if len(st.retained) < 2 {
				continue
			}
			dirty = true
			st.retained = st.retained[len(st.retained)-1:]
			jobOldest = st.retained[0].id
			c.Op("notify(op%d: retain [%d])", i, st.retained[0].id)
			root.Record(true)
			err := st.db.UpdateRetainedCheckpoints([]uint64{st.retained[0].id})
			root.Record(false)
			if err != nil {
				c.Failf("UpdateRetainedCheckpoints: %v", err)
			}
			if c.Fresh() {
				checkRetentionOrder(c, root.PeekLog(), stripAnyAlias(st.retained[0].h.URI), fmt.Sprintf("notify(op%d)", i), stripAnyAlias)
			}
			verify(fmt.Sprintf("notify(op%d)", i))
		case op == 2*p.n+1: // a job checkpoint: every operator checkpoints
			if jobCkpt >= 4 {
				continue
			}
			dirty = true
			jobCkpt++
			c.Op("jobCheckpoint(%d)", jobCkpt)
			for i, st := range ops {
				h, err := st.db.Checkpoint(jobCkpt)()
				if err != nil {
					c.Failf("operator %d checkpoint: %v", i, err)
				}
				st.retained = append(st.retained, handle{jobCkpt, h, st.ref.Clone(), st.dir})
			}
			verify(fmt.Sprintf("jobCheckpoint(%d)", jobCkpt))
		case op == 3*p.n+2:
			if stuck || !dirty {
				continue
			}
			dirty = false
			c.Op("GC")
			stuck = gcBarrierTimeout(1)
			if stuck {
				c.Op("(cleanup goroutine is blocked in a hanging NeedsTable call)")
				c.Note("executions_with_cleanup_blocked_by_hanging_neighbour")
			}
			verify("garbage collection")
		}
	}
	if !stuck {
		c.Op("GC(final)")
		stuck = gcBarrierTimeout(2)
		verify("final garbage collection")
	}
	if asked > 0 {
		c.Note("executions_with_neighbour_NeedsTable_calls")
	}
	if cleanupDeletes > 0 {
		c.Note("executions_with_cleanup_deletions")
	}
	runtime.KeepAlive(ops)
}
