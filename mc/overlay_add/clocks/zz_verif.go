package clocks

// Added by the verification overlay (never part of /repo): lets a harness Clock build
// Tickers that honour Stop, and read the retry request of an EveryContext.

import "time"

func VerifNewTicker(cancel func(), trigger func()) *Ticker {
	return &Ticker{cancel: cancel, trigger: trigger}
}

func VerifRetryIn(tc *EveryContext) time.Duration { return tc.retryIn }

func VerifClearRetry(tc *EveryContext) { tc.retryIn = 0 }
