#!/bin/bash
# ./seed_eval.sh <name> <worktree> <property,...> [tier]
# Confirms a seeded change produced in a scratch worktree (compiles, the repository's tests still
# pass, the demonstration fails with it and passes without it), stores it under seeded/<name>/ and
# runs the named checks against /repo with the change applied (then undoes it).
name=$1; wt=$2; props=$3; tier=${4:-quick}
. /verif/lib.sh; unset GOEXPERIMENT
set -u
cd "$wt" || exit 2
out=/verif/seeded/$name; mkdir -p "$out"
demo=$(git status --porcelain | grep '^??' | awk '{print $2}' | grep -v '^OUT/' | grep -v '\.pb\.go$\|connect\.go$' | head -5)
git diff > "$out/patch.diff"
[ -s "$out/patch.diff" ] || { echo "no source change in $wt"; exit 2; }
echo "== demo files: $demo"
pkgs=$(for f in $demo; do d=$(dirname $f); echo ./$d; done | sort -u)
run_demo() { GOEXPERIMENT=synctest go test -count=1 $pkgs 2>&1 | tail -15; }
echo "== build with change"; go build ./... || { echo "BUILD FAILS"; exit 1; }
echo "== demonstration WITH the change (must fail)"; w=$(run_demo); echo "$w" | tail -4; echo "$w" | grep -q "^FAIL\|--- FAIL" || { echo "demo does not fail with the change"; exit 1; }
git apply -R "$out/patch.diff"
echo "== demonstration WITHOUT the change (must pass)"; wo=$(run_demo); echo "$wo" | tail -3
# the package may hold a test of the repository that is flaky under machine load
# (storage/snapshots TestRoundTrippingSavepoint): up to two more attempts
for again in 1 2; do echo "$wo" | grep -q "^FAIL\|--- FAIL" && { wo=$(run_demo); echo "$wo" | tail -3; }; done
git apply "$out/patch.diff"
echo "$wo" | grep -q "^FAIL\|--- FAIL" && { echo "demo fails without the change too"; exit 1; }
echo "== repository tests with the change (demo moved aside)"
mkdir -p /tmp/demo-aside-$name; for f in $demo; do mv $f /tmp/demo-aside-$name/$(echo $f | tr / _); done
t=$(GOEXPERIMENT=synctest go test -count=1 $(go list ./... | grep -v /OUT) 2>&1 | grep -v "no test files" | grep -v "^ok" | grep -v "TestDNSErrorHandling\|http_client_test\|Error Trace\|Error:\|expected:\|in chain\|Test:\|^\s*$\|rpc\b\|retry\|^FAIL$\|lookup non-existent\|\"dial tcp\|\"lookup\|asm_amd64" | head -10)
for f in $demo; do mv /tmp/demo-aside-$name/$(echo $f | tr / _) $f; done; rmdir /tmp/demo-aside-$name
[ -z "$t" ] && echo "repository tests pass" || { echo "REPOSITORY TESTS AFFECTED:"; echo "$t"; }
for f in $demo; do cp $f "$out/"; done
cp OUT/notes.md "$out/notes.md" 2>/dev/null
# The checks run against the scratch worktree itself (REPO=<worktree>, own build and output
# directories): /repo is not touched, so sweeps and other checks can run meanwhile. With
# SEED_EVAL_INPLACE=1 the change is applied to /repo instead (git apply / git checkout -- .), the
# way an outside evaluation does it.
[ "$(git rev-parse HEAD)" = "$(git -C /repo rev-parse HEAD)" ] || echo "NOTE: worktree is at $(git rev-parse --short HEAD), /repo at $(git -C /repo rev-parse --short HEAD)"
res=""
if [ -n "${SEED_EVAL_INPLACE:-}" ]; then
  cd /repo && [ -z "$(git status --porcelain)" ] || { echo "/repo not clean"; exit 2; }
  git apply "$out/patch.diff" || { echo "patch does not apply to /repo"; exit 2; }
  runcheck() { (cd /verif && ./check "$@" 2>&1); }
else
  sb=/tmp/seed-build-$name; so=/tmp/seed-out-$name
  runcheck() { (cd /verif && REPO="$wt" VERIF_BUILD=$sb VERIF_OUT=$so ./check "$@" 2>&1); }
fi
for p in $(echo $props | tr , ' '); do
  o=$(runcheck $p $tier); rc=$?
  v=$(echo "$o" | grep -E "^VIOLATION" | head -1); msg=$(echo "$o" | grep -B1 "^VIOLATION" | head -1 | cut -c1-300)
  echo "== check $p $tier: rc=$rc $v"; echo "   $msg"
  res="$res $p:rc=$rc"
done
if [ -n "${SEED_EVAL_INPLACE:-}" ]; then git checkout -- .; else rm -rf "$sb" "$so"; fi
echo "RESULT $name:$res"
