// Package c04: failure-free delivery (C04), source-runner watermarks (C11a) and source
// positions at the barrier cut (C16a) on a real SourceRunner under the cooperative scheduler.
package c04

import (
	"fmt"
	"sort"
	"strings"
	"time"

	"reduction.dev/reduction/batching"
	"verif.local/mc/harness/refs"
	"verif.local/mc/harness/schedh"
	"verif.local/mc/harness/srh"
	"verif.local/mc/mc"
	"verif.local/mc/report"
)

const keyGroups = 4

// keys[i] is owned by operator i%2 when there are two operators.
var keys = func() []string {
	var k0, k1 []string
	for c := 'a'; c <= 'z' && (len(k0) < 2 || len(k1) < 2); c++ {
		k := string(c)
		if refs.OwnerIndex([]byte(k), keyGroups, 2) == 0 {
			k0 = append(k0, k)
		} else {
			k1 = append(k1, k)
		}
	}
	return []string{k0[0], k1[0], k0[1], k1[1]}
}()

type scenario struct {
	name   string
	splits map[string][]srh.Record
	order  []string
}

func rec(split string, idx int, ts int64, ks ...string) srh.Record {
	return srh.Record{Split: split, Idx: idx, TS: ts, Keys: ks}
}

var scenarios = []scenario{
	{"one split, out-of-order timestamps, a two-key record", map[string][]srh.Record{
		"a": {rec("a", 0, 1, keys[0]), rec("a", 1, 3, keys[0], keys[1]), rec("a", 2, 2, keys[1])}}, []string{"a"}},
	{"two splits sharing a key, a record without keyed events", map[string][]srh.Record{
		"a": {rec("a", 0, 1, keys[0]), rec("a", 1, 2, keys[0])},
		"b": {rec("b", 0, 3, keys[0]), rec("b", 1, 0), rec("b", 2, 1, keys[1])}}, []string{"a", "b"}},
	{"one split, four records on two operators", map[string][]srh.Record{
		"a": {rec("a", 0, 3, keys[1]), rec("a", 1, 1, keys[0]), rec("a", 2, 2, keys[1]), rec("a", 3, 3, keys[0], keys[2])}}, []string{"a"}},
	{"one split, five records of one key", map[string][]srh.Record{
		"a": {rec("a", 0, 1, keys[0]), rec("a", 1, 2, keys[0]), rec("a", 2, 2, keys[0]), rec("a", 3, 4, keys[0]), rec("a", 4, 3, keys[0])}}, []string{"a"}},
}

type params struct {
	oracle   string // "C04", "C11", "C16"
	focused  bool
	slowOp   bool // operators take longer than the batch time-out for every batch
	thorough bool
}

func rule(what string) string {
	return "a real SourceRunner (reader loop, asynchronous KeyEventBatch with latency through the real ReorderFetcher, per-operator batching, watermark ticker and batch time-outs on virtual time) with a harness reader over scenarios of 1-2 splits and 3-5 records (timestamps out of order - a late record, a late record followed by one between it and the maximum, repeated timestamps -, records with 0-2 keyed events, a key shared by two splits), read size 1-2, 1-2 recording operators with back-pressure (a separate part gives every operator call a virtual latency of 15 ms, longer than the batch time-out), MaxSize 1-2, MaxDelay 0/10ms, a checkpoint barrier requested after the first or second read (racing with everything else) or none; every schedule within the delay bound (an early timer expiry costs one). " + what
}

func run(k *report.Check, oracle string) {
	k.Budget(140, 1500)
	bound := k.Pick(1, 2)
	k.ExploreSched(fmt.Sprintf("runner/slow-operator,delays<=%d", bound), mc.Config{Bound: bound, Deadline: k.Within(0.25)}, params{oracle: oracle, slowOp: true, thorough: k.Thorough()}, body)
	k.ExploreSched(fmt.Sprintf("runner/all-configs,delays<=%d", bound), mc.Config{Bound: bound, Deadline: k.Within(0.55)}, params{oracle: oracle, thorough: k.Thorough()}, body)
	k.ExploreSched(fmt.Sprintf("runner/focused,delays<=%d", bound+1), mc.Config{Bound: bound + 1}, params{oracle: oracle, focused: true, thorough: k.Thorough()}, body)
}

func Run04(k *report.Check) {
	k.Rule = rule("C04 oracle on the operators' input streams: every keyed event exactly once, at the operator that owns murmur3(key) mod g by the harness's own hash, same-split same-key order kept, every broadcast barrier/watermark cuts all streams consistently (a record's events are on the same side of it everywhere) and no record below the reported split position follows the barrier; a watermark never precedes the record whose timestamp it was derived from (C11's oracle on the same streams); with a time-out every event must have been delivered after a virtual 450 ms. non-trivial = distinct (configuration, schedule cost, stream contents)")
	k.Assumptions = []string{"the reader's end of input does not end the run in this code base: runs are judged after 450 ms of virtual time", "with MaxDelay 0 and MaxSize 2 a trailing partial batch stays queued by design: then only order and uniqueness are required"}
	run(k, "C04")
}

func Run11(k *report.Check) {
	k.Rule = rule("C11 oracle, source-runner part: the k-th watermark carries the same value in every operator stream, values do not decrease, and each equals the largest timestamp among the keyed events that precede it in the union of the streams minus one nanosecond (before any event: the zero time minus one nanosecond); with a batch time-out every operator has been told the watermark of the largest forwarded timestamp by the end of the run (two watermark periods; judged on the schedules without deviations, where virtual time cannot run ahead of the reader). The operator part (minimum over upstreams) is the second group of parts. non-trivial = distinct (configuration, watermark value sequences)")
	k.Assumptions = []string{"as C04"}
	k.Budget(140, 1500)
	operatorPart(k) // cheap parts first: a loaded machine must not starve them
	run(k, "C11")
}

func Run16(k *report.Check) {
	k.Rule = rule("C16 oracle, barrier-cut part: the split positions reported for checkpoint N put every record whose keyed events precede barrier N in some operator stream below the position and every record whose events follow it at or above. Split assignment parts are listed separately. non-trivial = distinct (configuration, reported positions, streams)")
	k.Assumptions = []string{"records without keyed events are invisible to this oracle"}
	k.Budget(140, 1500)
	splitterParts(k) // cheap parts first: a loaded machine must not starve them
	run(k, "C16")
}

func body(c *mc.Ctx) {
	p := c.Param.(params)
	var sc scenario
	cfg := &srh.Config{KeyGroups: keyGroups}
	if p.slowOp {
		sc = scenarios[2+c.Choose(2)]
		cfg.ReadSize = 1 + c.Choose(2)
		cfg.Operators = 1
		cfg.Batching = batching.EventBatcherParams{MaxSize: 2, MaxDelay: 10 * time.Millisecond}
		cfg.OpLatency = 15 * time.Millisecond
		if b := c.Choose(4); b > 0 {
			cfg.Barriers, cfg.BarrierAfterReads = []uint64{1}, []int{b}
		}
	} else if p.focused {
		sc = scenarios[1]
		if p.thorough {
			sc = scenarios[c.Choose(2)]
		}
		cfg.ReadSize = 1
		cfg.Operators = 2
		cfg.Batching = batching.EventBatcherParams{MaxSize: 2, MaxDelay: 10 * time.Millisecond}
		cfg.Barriers, cfg.BarrierAfterReads = []uint64{1}, []int{2}
		if p.thorough {
			cfg.BarrierAfterReads = []int{1 + c.Choose(2)}
		}
	} else {
		sc = scenarios[c.Choose(3)]
		cfg.ReadSize = 1 + c.Choose(2)
		cfg.Operators = 1 + c.Choose(2)
		cfg.Batching = batching.EventBatcherParams{MaxSize: 1 + c.Choose(2), MaxDelay: []time.Duration{10 * time.Millisecond, 0}[c.Choose(2)]}
		switch c.Choose(3) {
		case 1:
			cfg.Barriers, cfg.BarrierAfterReads = []uint64{1}, []int{1}
		case 2:
			cfg.Barriers, cfg.BarrierAfterReads = []uint64{1}, []int{2}
		}
	}
	cfg.Splits, cfg.SplitOrder = sc.splits, sc.order
	c.Op("[%s; read=%d ops=%d MaxSize=%d MaxDelay=%v barrier after read %v]", sc.name, cfg.ReadSize, cfg.Operators, cfg.Batching.MaxSize, cfg.Batching.MaxDelay, cfg.BarrierAfterReads)
	obs := srh.Run(c, cfg, schedh.Opts{MaxSteps: 8000, MaxAdvances: 80})
	if len(obs.Errors) > 0 {
		c.Failf("source runner reported errors: %v", obs.Errors)
	}
	var sb []string
	for i, st := range obs.Streams {
		var items []string
		for _, it := range st {
			switch it.Kind {
			case 'e':
				items = append(items, it.Rec+"/"+it.Key)
			case 'w':
				items = append(items, fmt.Sprintf("wm(%s)", wmStr(it.T)))
			case 'b':
				items = append(items, fmt.Sprintf("barrier(%d)", it.Barrier))
			}
		}
		sb = append(sb, fmt.Sprintf("op%d: %s", i, strings.Join(items, " ")))
	}
	var cps []string
	for _, cp := range obs.Checkpoints {
		var st []string
		for _, s := range cp.SplitStates {
			st = append(st, string(s))
		}
		cps = append(cps, fmt.Sprintf("ckpt%d%v", cp.CheckpointId, st))
	}
	c.Op("streams: %s; reported %v", strings.Join(sb, " | "), cps)
	switch p.oracle {
	case "C04":
		checkDelivery(c, cfg, obs)
		// "watermarks never overtake records read before them": the value of a watermark names the
		// record that made it, which must precede it in the streams (C11's source-runner oracle)
		checkWatermarks(c, cfg, obs)
	case "C11":
		checkWatermarks(c, cfg, obs)
	case "C16":
		checkPositions(c, cfg, obs)
	}
	c.Outcome(strings.Join(sb, "|") + fmt.Sprint(cps))
	c.Nontrivial(fmt.Sprint(sc.name, cfg.ReadSize, cfg.Operators, cfg.Batching.MaxSize, cfg.Batching.MaxDelay, cfg.BarrierAfterReads, strings.Join(sb, "|"), cps))
}

func wmStr(t time.Time) string {
	if t.Year() < 1900 {
		return "zero" + fmt.Sprint(t.Sub(time.Time{}))
	}
	return fmt.Sprint(t.Sub(time.Unix(0, 0)))
}

func checkDelivery(c *mc.Ctx, cfg *srh.Config, obs *srh.Obs) {
	type evKey struct{ rec, key string }
	seen := map[evKey]int{}
	for oi, st := range obs.Streams {
		last := map[string]int{} // split+key -> last record idx
		for _, it := range st {
			if it.Kind != 'e' {
				continue
			}
			k := evKey{it.Rec, it.Key}
			seen[k]++
			if seen[k] > 1 {
				c.FailSig("event-duplicated", "keyed event %s/%s delivered %d times", it.Rec, it.Key, seen[k])
			}
			if want := refs.OwnerIndex([]byte(it.Key), cfg.KeyGroups, cfg.Operators); want != oi {
				c.FailSig("event-misrouted", "keyed event %s with key %q reached operator %d, its key group belongs to operator %d", it.Rec, it.Key, oi, want)
			}
			var split string
			var idx int
			parts := strings.SplitN(it.Rec, "#", 2)
			split = parts[0]
			fmt.Sscan(parts[1], &idx)
			lk := split + "/" + it.Key
			if prev, ok := last[lk]; ok && idx < prev {
				c.FailSig("event-reordered", "operator %d got record %s of key %q after record %s#%d of the same split and key", oi, it.Rec, it.Key, split, prev)
			}
			last[lk] = idx
		}
	}
	// completeness / prefix
	mustDeliverAll := cfg.Batching.MaxDelay > 0 || cfg.Batching.MaxSize == 1
	for _, split := range cfg.SplitOrder {
		gap := false
		for _, r := range cfg.Splits[split] {
			for _, key := range r.Keys {
				n := seen[evKey{r.ID(), key}]
				if n == 0 {
					if mustDeliverAll {
						c.FailSig("event-lost", "keyed event %s/%s was never delivered (after %v of virtual time, every batch time-out has fired)", r.ID(), key, cfg.Horizon)
					}
					gap = true
				} else if gap && !mustDeliverAll {
					// an event after an undelivered earlier one of the same key would be a reorder; different keys may be batched apart
				}
			}
		}
	}
	checkCuts(c, cfg, obs, false)
}

// checkCuts: every broadcast marker (k-th watermark, barrier N) must cut all streams
// consistently: a record's events are on the same side of it in every stream.
func checkCuts(c *mc.Ctx, cfg *srh.Config, obs *srh.Obs, positions bool) {
	type marker struct {
		kind byte
		n    uint64
	}
	side := map[marker]map[string]int{} // marker -> record -> -1 before / +1 after
	for oi, st := range obs.Streams {
		wm := uint64(0)
		pos := map[marker]int{}
		for i, it := range st {
			switch it.Kind {
			case 'w':
				wm++
				pos[marker{'w', wm}] = i
			case 'b':
				pos[marker{'b', it.Barrier}] = i
			}
		}
		for m, mi := range pos {
			if side[m] == nil {
				side[m] = map[string]int{}
			}
			for i, it := range st {
				if it.Kind != 'e' {
					continue
				}
				s := -1
				if i > mi {
					s = 1
				}
				if prev, ok := side[m][it.Rec]; ok && prev != s {
					what := fmt.Sprintf("watermark #%d", m.n)
					if m.kind == 'b' {
						what = fmt.Sprintf("barrier %d", m.n)
					}
					c.FailSig("inconsistent-cut", "%s overtakes part of record %s: its events are before it in one operator stream and after it in operator %d's", what, it.Rec, oi)
				}
				side[m][it.Rec] = s
			}
		}
	}
	// split positions versus the barrier cut
	for _, cp := range obs.Checkpoints {
		cur := map[string]int{}
		for _, s := range cp.SplitStates {
			p := strings.SplitN(string(s), "=", 2)
			n := 0
			fmt.Sscan(p[1], &n)
			cur[p[0]] = n
		}
		m := marker{'b', cp.CheckpointId}
		for recID, s := range side[m] {
			p := strings.SplitN(recID, "#", 2)
			idx := 0
			fmt.Sscan(p[1], &idx)
			if s < 0 && idx >= cur[p[0]] {
				c.FailSig("position-behind-cut", "checkpoint %d reports split %s at position %d, but record %s was emitted ahead of the barrier (it would be read again after a restore)", cp.CheckpointId, p[0], cur[p[0]], recID)
			}
			if s > 0 && idx < cur[p[0]] {
				c.FailSig("position-ahead-of-cut", "checkpoint %d reports split %s at position %d, but record %s was emitted after the barrier (it would be lost after a restore)", cp.CheckpointId, p[0], cur[p[0]], recID)
			}
		}
	}
}

func checkPositions(c *mc.Ctx, cfg *srh.Config, obs *srh.Obs) {
	checkCuts(c, cfg, obs, true)
	for _, cp := range obs.Checkpoints {
		seen := map[string]bool{}
		for _, s := range cp.SplitStates {
			p := strings.SplitN(string(s), "=", 2)
			if seen[p[0]] {
				c.FailSig("split-reported-twice", "checkpoint %d reports split %s twice", cp.CheckpointId, p[0])
			}
			seen[p[0]] = true
		}
		if len(seen) != len(cfg.SplitOrder) {
			c.FailSig("split-missing", "checkpoint %d reports positions for %d of %d splits", cp.CheckpointId, len(seen), len(cfg.SplitOrder))
		}
	}
	if len(cfg.Barriers) > 0 && len(obs.Checkpoints) > 0 {
		c.Note("executions_with_reported_positions")
	}
}

func checkWatermarks(c *mc.Ctx, cfg *srh.Config, obs *srh.Obs) {
	// per stream: positions of its watermarks and the running maximum of event timestamps
	type wmInfo struct {
		val     time.Time
		maxPrev time.Time // largest event timestamp before it in this stream
		hasPrev bool
	}
	var per [][]wmInfo
	var streamMax []time.Time // largest event timestamp anywhere in the stream
	var streamHas []bool
	for _, st := range obs.Streams {
		var ws []wmInfo
		var mx time.Time
		has := false
		for _, it := range st {
			switch it.Kind {
			case 'e':
				if !has || it.T.After(mx) {
					mx, has = it.T, true
				}
			case 'w':
				ws = append(ws, wmInfo{val: it.T, maxPrev: mx, hasPrev: has})
			}
		}
		per = append(per, ws)
		streamMax = append(streamMax, mx)
		streamHas = append(streamHas, has)
	}
	maxK := 0
	for _, ws := range per {
		maxK = max(maxK, len(ws))
	}
	zero := time.Time{}.Add(-time.Nanosecond)
	var prev time.Time
	for k := 0; k < maxK; k++ {
		var val time.Time
		first := true
		// certain: events that precede watermark k in a stream that has it; possible: those plus,
		// for a stream that has not received watermark k yet (it sits in a batch), everything it got
		var certain, possible time.Time
		hasCertain, hasPossible := false, false
		bump := func(t time.Time, cur *time.Time, has *bool) {
			if !*has || t.After(*cur) {
				*cur, *has = t, true
			}
		}
		for oi, ws := range per {
			if k < len(ws) {
				if first {
					val, first = ws[k].val, false
				} else if !ws[k].val.Equal(val) {
					c.FailSig("watermark-differs-between-operators", "watermark #%d is %s at one operator and %s at operator %d", k+1, wmStr(val), wmStr(ws[k].val), oi)
				}
				if ws[k].hasPrev {
					bump(ws[k].maxPrev, &certain, &hasCertain)
					bump(ws[k].maxPrev, &possible, &hasPossible)
				}
			} else if streamHas[oi] {
				bump(streamMax[oi], &possible, &hasPossible)
			}
		}
		if k > 0 && val.Before(prev) {
			c.FailSig("watermark-decreases", "watermark #%d (%s) is lower than watermark #%d (%s)", k+1, wmStr(val), k, wmStr(prev))
		}
		lo, hi := zero, zero
		if hasCertain {
			lo = certain.Add(-time.Nanosecond)
		}
		if hasPossible {
			hi = possible.Add(-time.Nanosecond)
		}
		if val.Before(lo) {
			c.FailSig("watermark-lags", "watermark #%d is %s although an event with timestamp %s was forwarded before it: it must be at least %s", k+1, wmStr(val), wmStr(certain), wmStr(lo))
		}
		if val.After(hi) {
			c.FailSig("watermark-reaches-forwarded-timestamp", "watermark #%d is %s, but the largest timestamp forwarded so far is %s: it may be at most %s", k+1, wmStr(val), wmStr(possible), wmStr(hi))
		}
		prev = val
	}
	if maxK > 0 {
		c.Note("executions_with_watermarks")
	}
	// "follows that timestamp closely so event time advances": the runs last two watermark periods
	// and every record is forwarded well within the first one, so each operator must have been
	// told the final watermark - the largest forwarded timestamp minus one nanosecond - by the
	// end (with a batch time-out; without one a trailing partial batch stays queued by design).
	// Only on schedules without deviations: an early expiry of a timer (a deviation) lets virtual
	// time run ahead of the reader, and then the premise does not hold.
	if cfg.Batching.MaxDelay > 0 && c.Used() == 0 {
		var top time.Time
		any := false
		for oi := range obs.Streams {
			if streamHas[oi] && (!any || streamMax[oi].After(top)) {
				top, any = streamMax[oi], true
			}
		}
		if any {
			want := top.Add(-time.Nanosecond)
			for oi, ws := range per {
				reached := false
				for _, w := range ws {
					reached = reached || w.val.Equal(want)
				}
				if !reached {
					last := "none"
					if len(ws) > 0 {
						last = wmStr(ws[len(ws)-1].val)
					}
					c.FailSig("watermark-does-not-follow", "operator %d was never told the watermark %s that follows the largest forwarded timestamp %s, although two watermark periods passed after the last record (its last watermark: %s)", oi, wmStr(want), wmStr(top), last)
				}
			}
		}
	}
	_ = sort.Strings
}
