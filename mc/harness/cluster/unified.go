package cluster

import (
	"io"
	"iter"
	"strings"

	"reduction.dev/reduction/storage/locations"
	"verif.local/mc/harness/dkvh"
	"verif.local/mc/harness/jobh"
)

// UnifiedLoc is the job's StorageLocation when savepoints are involved: relative paths live in
// the job's own location, while "memory://" URIs (the operators' DKV files) resolve to the DKV
// storage, the way absolute paths and S3 URIs do with the real locations.
type UnifiedLoc struct {
	*jobh.MemLoc
	DKV *dkvh.FS
}

func isURI(p string) bool { return strings.HasPrefix(p, "memory://") }

func (u *UnifiedLoc) Read(path string) ([]byte, error) {
	if isURI(path) {
		if b, ok := u.DKV.ReadURI(path); ok {
			return b, nil
		}
		return nil, locations.ErrNotFound
	}
	return u.MemLoc.Read(path)
}

func (u *UnifiedLoc) Copy(src, dst string) error {
	data, err := u.Read(src)
	if err != nil {
		return err
	}
	if isURI(dst) {
		u.DKV.WriteURI(dst, data)
		return nil
	}
	_, err = u.MemLoc.Write(dst, strings.NewReader(string(data)))
	return err
}

func (u *UnifiedLoc) Write(path string, data io.Reader) (string, error) {
	return u.MemLoc.Write(path, data)
}
func (u *UnifiedLoc) List() iter.Seq2[string, error] { return u.MemLoc.List() }

var _ locations.StorageLocation = (*UnifiedLoc)(nil)
