// mcheck runs the check of one property: mcheck <property id> [quick|thorough] [--replay file]
package main

import (
	"fmt"
	"io"
	"log/slog"
	"os"
	"runtime"
	"runtime/debug"
	"runtime/pprof"
	"time"

	"verif.local/mc/mc"
	"verif.local/mc/report"
)

var checks = map[string]struct {
	level string
	run   func(*report.Check)
}{}

func register(id, level string, run func(*report.Check)) {
	checks[id] = struct {
		level string
		run   func(*report.Check)
	}{level, run}
}

func main() {
	debug.SetGCPercent(400)
	slog.SetDefault(slog.New(slog.NewTextHandler(io.Discard, nil)))
	if len(os.Args) < 2 {
		fmt.Fprintln(os.Stderr, "usage: mcheck <property> [quick|thorough] [--replay file]")
		os.Exit(3)
	}
	c, ok := checks[os.Args[1]]
	if !ok {
		fmt.Fprintf(os.Stderr, "INTERNAL-ERROR: no check for %s in this binary\n", os.Args[1])
		os.Exit(3)
	}
	k := report.New(os.Args[1], c.level, os.Args[2:])
	if pf := os.Getenv("VERIF_PPROF"); pf != "" {
		f, _ := os.Create(pf)
		pprof.StartCPUProfile(f)
		k.AtExit = pprof.StopCPUProfile
		if os.Getenv("VERIF_PPROF_SECS") != "" {
			go func() { time.Sleep(12 * time.Second); pprof.StopCPUProfile(); os.Exit(0) }()
		}
	}
	if hf := os.Getenv("VERIF_HEAPPROF"); hf != "" { // debugging aid: heap profile after 25 s, then exit
		go func() {
			time.Sleep(25 * time.Second)
			runtime.GC()
			f, _ := os.Create(hf)
			pprof.WriteHeapProfile(f)
			f.Close()
			os.Exit(0)
		}()
	}
	if !k.IsWorker() {
		mc.StartDefaultMemoryGuard()
	}
	c.run(k)
	k.Finish()
}
