package c08

import (
	"fmt"

	"reduction.dev/reduction/dkv"
	"reduction.dev/reduction/dkv/recovery"
	"verif.local/mc/harness/dkvh"
	"verif.local/mc/harness/schedh"
	"verif.local/mc/mc"
	"verif.local/mc/shim"
)

// Schedule part (scheduler build): Checkpoint is called while memtable flushes (and the
// compaction they trigger) are in flight, every schedule within the delay bound. Each returned
// handle, restored into a fresh database once everything has come to rest, must show exactly the
// map at the moment of the Checkpoint call: the level list, the memtables and the WAL position
// a checkpoint records must belong to one moment.

type schedParams struct{}

var schedHistories = []struct {
	name string
	o    dkvh.Options
	// writes before the checkpoint (keys; a leading '-' deletes) and after it
	before, after []string
}{
	{"checkpoint right after the write that rotates the memtable", dkvh.Options{Mem: 30, Table: 40, L0: 2, Smallest: 4500, Ampl: 50}, []string{"a", "b"}, []string{"c"}},
	{"checkpoint with two flushes and a compaction pending", dkvh.Options{Mem: 30, Table: 40, L0: 2, Smallest: 4500, Ampl: 50}, []string{"a", "b", "a", "-b"}, []string{"b"}},
	{"checkpoint with entries only in memory above a pending flush", dkvh.Options{Mem: 50, Table: 80, L0: 1, Smallest: 4500, Ampl: 50}, []string{"a", "b", "c"}, []string{"-a"}},
}

func schedBody(c *mc.Ctx) {
	h := schedHistories[c.Choose(len(schedHistories))]
	c.Op("[%s; %s]", h.name, h.o)
	shim.ClearGlobalTune()
	shim.SetGlobalTune("SmallestLevelSize", h.o.Smallest)
	shim.SetGlobalTune("MaxSizeAmplificationPercent", h.o.Ampl)
	defer shim.ClearGlobalTune()
	dkv.VerifResetQueues()
	var failure, sig string
	schedh.Run(c, schedh.Opts{MaxSteps: 30000, NoAdvanceAlt: true}, func() {
		fs := dkvh.NewFS()
		db := dkv.Open(h.o.DBOptions(fs.WithWorkingDir("/w")), nil)
		ref := dkvh.Ref{}
		write := func(i int, k string) {
			if k[0] == '-' {
				db.Delete([]byte(k[1:]))
				delete(ref, k[1:])
				return
			}
			v := fmt.Sprintf("v%d", i)
			db.Put([]byte(k), []byte(v))
			ref[k] = v
		}
		for i, k := range h.before {
			write(i, k)
		}
		captured := ref.Clone()
		handle, err := db.Checkpoint(1)()
		if err != nil {
			sig, failure = "checkpoint-failed", fmt.Sprintf("Checkpoint(1): %v", err)
			return
		}
		for i, k := range h.after {
			write(len(h.before)+i, k)
		}
		if err := db.WaitOnTasks(); err != nil {
			sig, failure = "background-task-failed", fmt.Sprintf("background task failed: %v", err)
			return
		}
		// restore the handle into a fresh database (same files, another directory)
		func() {
			defer func() {
				if r := recover(); r != nil {
					txt, ok := dkvh.PanicText(r)
					if !ok {
						panic(r)
					}
					sig, failure = "restore-panics", "restore of checkpoint 1 panics: "+txt
				}
			}()
			rdb := dkv.Open(h.o.DBOptions(fs.WithWorkingDir("/r")), []recovery.CheckpointHandle{handle})
			if err := rdb.WaitOnTasks(); err != nil {
				sig, failure = "background-task-failed", fmt.Sprintf("background task of the restored database failed: %v", err)
				return
			}
			for _, k := range []string{"a", "b", "c"} {
				e, err := rdb.Get([]byte(k))
				want, has := captured[k]
				got, present := "", false
				if err == nil && !e.IsDelete() {
					got, present = string(e.Value()), true
				}
				if present != has || got != want {
					sig = "restore-mismatch"
					failure = fmt.Sprintf("restored checkpoint 1: Get(%q) = %q (present %v), at the Checkpoint call it was %q (present %v)", k, got, present, want, has)
					return
				}
			}
			var scanErr error
			var got []string
			for e := range rdb.ScanPrefix(nil, &scanErr) {
				got = append(got, fmt.Sprintf("%q=%s", e.Key(), e.Value()))
			}
			if scanErr != nil || fmt.Sprint(got) != fmt.Sprint(captured.Scan("")) {
				sig = "restore-mismatch"
				failure = fmt.Sprintf("restored checkpoint 1: ScanPrefix(\"\") = %v (err %v), at the Checkpoint call it was %v", got, scanErr, captured.Scan(""))
			}
		}()
	})
	if failure != "" {
		c.FailSig(sig, "%s", failure)
	}
	c.Nontrivial(fmt.Sprint(h.name, c.Used()))
	c.Outcome(h.name)
}
