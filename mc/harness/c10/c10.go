// Package c10: event-time timers fire exactly once, in order, and survive recovery
// (DESIGN §5 C10). Real TimerRegistry + TimerStore over a real dkv.DB.
package c10

import (
	"fmt"
	"sort"
	"strings"
	"time"

	"google.golang.org/protobuf/types/known/timestamppb"
	"reduction.dev/reduction/dkv"
	"reduction.dev/reduction/dkv/recovery"
	"reduction.dev/reduction/dkv/storage"
	"reduction.dev/reduction/partitioning"
	"reduction.dev/reduction/proto/workerpb"
	"reduction.dev/reduction/workers/operator"
	"verif.local/mc/mc"
	"verif.local/mc/report"
)

type params struct {
	depth int
}

var subjects = []string{"a", "b", "c"}
var stamps = []int64{1, 2, 3, 5}
var marks = []int64{1, 2, 3, 4, 9}

// cache sizes in bytes for the whole store (divided by the number of key groups by the store):
// a timer entry for a one-byte key is 12 bytes.
var cacheTimers = []int{0, 1, 2, 3, 1000}

// Abstract stamps are mapped to instants on one of two scales: whole seconds from the epoch, or
// single nanoseconds from an instant in 2023 with an odd nanosecond part (all stamps of a run then
// lie within two microseconds of each other, the way watermarks "one nanosecond behind" an event do).
type scale struct {
	base time.Time
	unit time.Duration
	name string
}

var scales = []scale{
	{time.Unix(0, 0), time.Second, "seconds from the epoch"},
	{time.Unix(1700000000, 123456789), time.Nanosecond, "nanoseconds from 2023-11-14T22:13:20.123456789Z"},
}

func (s scale) at(n int64) time.Time   { return s.base.Add(time.Duration(n) * s.unit) }
func (s scale) of(t time.Time) int64   { return int64(t.Sub(s.base) / s.unit) }
func (s scale) exact(t time.Time) bool { return s.at(s.of(t)).Equal(t) }

type timer struct {
	key string
	t   int64
}

func Run(k *report.Check) {
	k.Rule = "every sequence up to the depth over SetTimer(key in {a,b,c}, t in {1,2,3,5}) (repeats allowed), AdvanceWatermark(upstream, w in {1,2,3,4,9}, non-decreasing per upstream) and checkpoint+restore, with 1 or 2 upstreams, an operator range starting at key group 0 or 1, abstract stamps mapped to whole seconds from the epoch or to single nanoseconds around an instant with an odd nanosecond part (fired timestamps must be exactly instants that were set), subject keys in two key groups (two of them share one) and per-key-group cache capacity of 0, 1, 2, 3 or unlimited timers; the real TimerRegistry/TimerStore over a real dkv.DB are compared with a set of pending (key,t) pairs: each advance must yield exactly the pending timers with t <= min(upstream watermarks), once, in non-decreasing t. States (pending set, upstream watermarks, cache contents and completeness flag per key group) are deduplicated. non-trivial = distinct states in which some pending timer is held only in the database (evicted or not yet loaded)"
	k.Assumptions = []string{"watermarks of one upstream do not decrease (C11); timestamps at or after the epoch", "the database itself is C07/C08's subject: a large memtable keeps it out of the picture here"}
	k.Budget(300, 1200)
	p := params{depth: k.Pick(5, 7)}
	// worker processes: every scan of the database that ends early leaves parked iterator coroutines
	// behind in the code under test (mergesort.Merge never stops the iterators it pulls), a few
	// kilobytes per execution; workers are replaced when their live heap passes the cap
	k.ExploreProc(fmt.Sprintf("timers/d=%d", p.depth), mc.Config{WorkerHeapCap: 640 << 20, SharedSeen: uint64(k.Pick(1<<24, 1<<26))}, p, body)
}

// pickKeySpace finds a key-group count for which a and c share a group, b has another and no
// subject falls into group 0 (so that the operator's range may start above 0).
func pickKeySpace() (*partitioning.KeySpace, int) {
	for g := 2; g < 64; g++ {
		ks := partitioning.NewKeySpace(g, 1)
		a, b, c := ks.KeyGroup([]byte("a")), ks.KeyGroup([]byte("b")), ks.KeyGroup([]byte("c"))
		if a == c && a != b && a >= 1 && b >= 1 {
			return ks, g
		}
	}
	// the hash of the tree under test does not separate the subjects as wanted (a broken hash is
	// C05's subject): any key space will do, the check must not fail to start
	return partitioning.NewKeySpace(8, 1), 8
}

var keySpace, groups = pickKeySpace()

type world struct {
	c       *mc.Ctx
	fs      *storage.MemoryFilesystem
	db      *dkv.DB
	store   *operator.TimerStore
	reg     *operator.TimerRegistry
	ups     []string
	cache   uint64
	pending map[timer]bool
	wm      map[string]int64
	eff     int64 // effective operator watermark as the registry knows it; -1 = none yet
	nextCk  uint64
	gen     int
	lo      int // first key group of the operator's range
	sc      scale
}

func (w *world) open(handles []recovery.CheckpointHandle) {
	w.gen++
	w.db = dkv.Open(dkv.DBOptions{FileSystem: w.fs.WithWorkingDir(fmt.Sprintf("/g%d", w.gen)), MemTableSize: 1 << 20}, handles)
	rng := partitioning.KeyGroupRange{Start: w.lo, End: groups}
	w.store = operator.NewTimerStore(w.db, keySpace, rng, w.cache)
	w.reg = operator.NewTimerRegistry(w.store, w.ups)
	w.wm = map[string]int64{}
	for _, u := range w.ups {
		w.wm[u] = 0
	}
	w.eff = -1
}

func (w *world) stateKey() string {
	var ps []string
	for t := range w.pending {
		ps = append(ps, fmt.Sprintf("%s@%d", t.key, t.t))
	}
	sort.Strings(ps)
	var ws []string
	for _, u := range w.ups {
		ws = append(ws, fmt.Sprint(w.wm[u]))
	}
	return fmt.Sprint(w.cache, w.lo, w.sc.name, ps, ws, w.eff, w.store.VerifDump())
}

func body(c *mc.Ctx) {
	p := c.Param.(params)
	nups := 1 + c.Choose(2)
	ct := cacheTimers[c.Choose(len(cacheTimers))]
	w := &world{c: c, fs: storage.NewMemoryFilesystem(), pending: map[timer]bool{}, nextCk: 1}
	w.ups = []string{"s1", "s2"}[:nups]
	// the store divides the capacity evenly among the key groups; a capacity of n timers per
	// group needs n*12+1 bytes (the cache is "full" at >= max)
	if c.Choose(2) == 1 { // the operator is not the first of its job: its range starts above group 0
		w.lo = 1
	}
	w.cache = uint64((groups - w.lo) * (ct*12 + 1))
	w.sc = scales[c.Choose(len(scales))]
	c.Op("[upstreams=%d cache=%d timers/group, key groups %d..%d, stamps in %s]", nups, ct, w.lo, groups-1, w.sc.name)
	w.open(nil)
	for step := 0; step < p.depth; step++ {
		if c.Fresh() && c.Seen(w.stateKey(), p.depth-step) {
			return
		}
		nSet := len(subjects) * len(stamps)
		nAdv := nups * len(marks)
		op := c.Choose(1 + nSet + nAdv + 1)
		switch {
		case op == 0:
			step = p.depth
			continue
		case op <= nSet:
			key, t := subjects[(op-1)/len(stamps)], stamps[(op-1)%len(stamps)]
			c.Op("SetTimer(%s,%d)", key, t)
			w.reg.SetTimer([]byte(key), w.sc.at(t))
			if w.eff < 0 || t > w.eff {
				w.pending[timer{key, t}] = true
			}
		case op <= nSet+nAdv:
			i := op - nSet - 1
			up, mark := w.ups[i/len(marks)], marks[i%len(marks)]
			if mark < w.wm[up] {
				continue // watermarks of one upstream do not decrease
			}
			c.Op("Advance(%s,%d)", up, mark)
			w.wm[up] = mark
			w.eff = mark
			for _, u := range w.ups {
				w.eff = min(w.eff, w.wm[u])
			}
			var got []timer
			for key, ts := range w.reg.AdvanceWatermark(up, &workerpb.Watermark{Timestamp: timestamppb.New(w.sc.at(mark))}) {
				got = append(got, w.fired(key, ts))
			}
			var want []timer
			for t := range w.pending {
				if t.t <= w.eff {
					want = append(want, t)
				}
			}
			w.compare(got, want)
			for _, t := range want {
				delete(w.pending, t)
			}
		default:
			id := w.nextCk
			w.nextCk++
			c.Op("Checkpoint(%d)+Restore", id)
			h, err := w.db.Checkpoint(id)()
			if err != nil {
				c.Failf("Checkpoint: %v", err)
			}
			w.open([]recovery.CheckpointHandle{h})
			c.Note("executions_with_restore")
		}
		if c.Fresh() {
			dump := w.store.VerifDump()
			inCache := strings.Count(dump, " ")
			if inCache < len(w.pending) {
				c.Nontrivial(w.stateKey())
				c.Note("states_with_timers_only_in_the_database")
			}
		}
	}
	// drain: a final advance far in the future must deliver every pending timer exactly once
	c.Op("Advance(all,1000)")
	var got []timer
	for _, u := range w.ups {
		for key, ts := range w.reg.AdvanceWatermark(u, &workerpb.Watermark{Timestamp: timestamppb.New(w.sc.at(1000))}) {
			got = append(got, w.fired(key, ts))
		}
	}
	var want []timer
	for t := range w.pending {
		want = append(want, t)
	}
	w.compare(got, want)
}

// fired turns a fired timer into its abstract stamp; an instant that is not one of the scale's
// (a truncated or shifted timestamp) is a failure of its own.
func (w *world) fired(key []byte, ts time.Time) timer {
	if !w.sc.exact(ts) {
		w.c.FailSig("timer-timestamp-altered", "timer of key %q fired with timestamp %s, which no SetTimer call used (scale: %s)", key, ts.UTC().Format(time.RFC3339Nano), w.sc.name)
	}
	return timer{string(key), w.sc.of(ts)}
}

func (w *world) compare(got, want []timer) {
	c := w.c
	for i := 1; i < len(got); i++ {
		if got[i].t < got[i-1].t {
			c.FailSig("timers-out-of-order", "timers fired out of order: %v", got)
		}
	}
	g, x := render(got), render(want)
	if g != x {
		sig := "timers-wrong-set"
		switch {
		case len(got) < len(want):
			sig = "timers-missing"
		case len(got) > len(want):
			sig = "timers-extra-or-duplicate"
		}
		c.FailSig(sig, "advance fired %s, pending timers at or below the watermark are %s", g, x)
	}
}

func render(ts []timer) string {
	s := make([]string, len(ts))
	for i, t := range ts {
		s[i] = fmt.Sprintf("%s@%d", t.key, t.t)
	}
	sort.Strings(s)
	return fmt.Sprint(s)
}
