package shim

import (
	"fmt"
	"runtime"
	rsync "sync"
	"testing/synctest"
	"time"
)

// The cooperative scheduler (DESIGN §2.2). One exploration process runs inside a single
// testing/synctest bubble; the bubble's root goroutine is the scheduler. Instrumented code
// calls Point before every synchronisation operation; exactly one thread is granted at a time.

type tstate int

const (
	tRunning tstate = iota // granted, or blocked in a real operation, or just woken and on its way to its next point
	tParked                // at a point, enabled
	tWaiting               // at a point, disabled (waiting for a held shim mutex)
	tDone
)

// Thread is a goroutine of the code under test.
type Thread struct {
	ID      int
	s       *Sched
	wake    chan struct{}
	state   tstate
	waitObj any
	label   string
}

// Chooser supplies the scheduler's decisions (an mc.Ctx behind it).
type Chooser interface {
	// Pick chooses among n>=2 enabled threads in canonical order; alternative i costs i delays.
	Pick(n int) int
	// Advance decides whether virtual time jumps to the next pending timer although threads
	// are runnable (true costs one deviation).
	Advance() bool
}

// Sched runs one execution.
type Sched struct {
	mu       rsync.Mutex
	ch       Chooser
	threads  []*Thread
	byG      map[uintptr]*Thread
	granted  *Thread
	last     *Thread
	finished bool

	Steps        int
	MaxSteps     int
	TimeAdvances int
	MaxAdvances  int
	Deadlock     bool
	Cut          bool // step or time-advance horizon reached
	Panics       []string
	Trace        []string // (thread, label) per step when KeepTrace
	KeepTrace    bool
	timers       []*timerRec
	NoAdvanceAlt bool             // never offer "advance time while threads are runnable"
	adopted      map[uintptr]bool // goroutines mapped to a thread without having been spawned by it (coroutines)
	Leaked       int              // threads left blocked in a real operation when the execution ended
}

// S is the active scheduler; nil = pass-through (free-running) mode.
var S *Sched

// graveyard ends a goroutine that belongs to a finished execution: deferred calls run (they
// only touch objects of that execution), then the goroutine and its stack are freed.
func graveyard() { runtime.Goexit() }

// owners maps every goroutine started through the shim to the scheduler of its execution: a
// goroutine of a finished execution that wakes up later (its ticker fires when a later
// execution advances the shared virtual clock) must never be adopted by the current one.
var owners rsync.Map // g -> *Sched

func (s *Sched) self() *Thread {
	g := getg()
	if o, ok := owners.Load(g); ok && o.(*Sched) != s {
		graveyard()
	}
	s.mu.Lock()
	defer s.mu.Unlock()
	if t := s.byG[g]; t != nil {
		// the runtime reuses g structures: an adopted (coroutine) entry may be left over from a
		// coroutine of another thread that has ended; the caller belongs to the granted thread
		if s.adopted[g] && s.granted != nil && t != s.granted {
			s.byG[g] = s.granted
			return s.granted
		}
		return t
	}
	if s.granted != nil { // an iter.Pull coroutine of the granted thread
		s.byG[g] = s.granted
		if s.adopted == nil {
			s.adopted = map[uintptr]bool{}
		}
		s.adopted[g] = true
		return s.granted
	}
	// spontaneous goroutine (a runtime timer callback not created through the shim)
	t := &Thread{ID: len(s.threads), s: s, wake: make(chan struct{}), state: tRunning}
	s.threads = append(s.threads, t)
	s.byG[g] = t
	return t
}

// Point parks the calling thread until the scheduler grants it again.
func Point(label string) {
	s := S
	if s == nil {
		return
	}
	t := s.self()
	if t.s != S {
		graveyard()
	}
	s.mu.Lock()
	t.state = tParked
	t.label = label
	if s.granted == t {
		s.granted = nil
	}
	s.mu.Unlock()
	<-t.wake
	if t.s != S {
		graveyard()
	}
}

// WaitOn parks the thread disabled until obj is released.
func WaitOn(obj any) {
	s := S
	t := s.self()
	s.mu.Lock()
	t.state = tWaiting
	t.waitObj = obj
	if s.granted == t {
		s.granted = nil
	}
	s.mu.Unlock()
	<-t.wake
	if t.s != S {
		graveyard()
	}
}

// Released re-enables the threads waiting for obj.
func Released(obj any) {
	s := S
	if s == nil {
		return
	}
	s.mu.Lock()
	for _, t := range s.threads {
		if t.state == tWaiting && t.waitObj == obj {
			t.state = tParked
			t.waitObj = nil
		}
	}
	s.mu.Unlock()
}

// Go starts f as a new thread (replaces the go statement).
func Go(f func()) {
	s := S
	if s == nil {
		go f()
		return
	}
	Point("go")
	s.spawn(f)
}

func (s *Sched) spawn(f func()) *Thread {
	t := &Thread{s: s, wake: make(chan struct{}), state: tParked, label: "start"}
	s.mu.Lock()
	t.ID = len(s.threads)
	s.threads = append(s.threads, t)
	s.mu.Unlock()
	go func() {
		g := getg()
		owners.Store(g, s)
		defer owners.Delete(g)
		s.mu.Lock()
		s.byG[g] = t
		delete(s.adopted, g)
		s.mu.Unlock()
		<-t.wake
		if t.s != S {
			graveyard()
		}
		defer func() {
			if r := recover(); r != nil {
				if S != s {
					graveyard()
				}
				buf := make([]byte, 4096)
				n := runtime.Stack(buf, false)
				s.mu.Lock()
				s.Panics = append(s.Panics, fmt.Sprintf("%v\n%s", r, buf[:n]))
				s.mu.Unlock()
			}
			s.mu.Lock()
			t.state = tDone
			if s.granted == t {
				s.granted = nil
			}
			for g2, tt := range s.byG {
				if tt == t {
					delete(s.byG, g2)
				}
			}
			s.mu.Unlock()
		}()
		f()
	}()
	return t
}

// NewSched creates a scheduler for one execution.
func NewSched(ch Chooser, maxSteps int) *Sched {
	return &Sched{byG: map[uintptr]*Thread{}, ch: ch, MaxSteps: maxSteps, MaxAdvances: 64}
}

// Run executes body as thread 0 under the scheduler. Must be called from the bubble root.
func (s *Sched) Run(body func()) {
	S = s
	s.spawn(func() {
		body()
		s.mu.Lock()
		s.finished = true
		s.mu.Unlock()
	})
	for {
		synctest.Wait()
		s.mu.Lock()
		s.granted = nil // nobody runs now; a granted thread that is not parked is blocked in a real operation
		var enabled []*Thread
		if s.last != nil && s.last.state == tParked {
			enabled = append(enabled, s.last)
		}
		for _, t := range s.threads {
			if t.state == tParked && t != s.last {
				enabled = append(enabled, t)
			}
		}
		finished := s.finished
		npanics := len(s.Panics)
		s.mu.Unlock()
		if finished || npanics > 0 {
			break
		}
		dl, hasTimer := s.nextDeadline()
		if len(enabled) == 0 {
			// nothing runnable: virtual time passes to the next known timer
			if hasTimer && s.TimeAdvances < s.MaxAdvances {
				s.TimeAdvances++
				time.Sleep(time.Until(dl))
				continue
			}
			if hasTimer {
				s.Cut = true
			} else {
				s.Deadlock = true
			}
			break
		}
		if s.Steps >= s.MaxSteps {
			s.Cut = true
			break
		}
		if hasTimer && !s.NoAdvanceAlt && s.TimeAdvances < s.MaxAdvances && s.ch.Advance() {
			s.TimeAdvances++
			time.Sleep(time.Until(dl))
			continue
		}
		idx := 0
		if len(enabled) > 1 {
			idx = s.ch.Pick(len(enabled))
		}
		t := enabled[idx]
		if s.KeepTrace {
			s.Trace = append(s.Trace, fmt.Sprintf("T%d:%s", t.ID, t.label))
		}
		s.mu.Lock()
		t.state = tRunning
		s.granted = t
		s.last = t
		s.mu.Unlock()
		s.Steps++
		t.wake <- struct{}{}
	}
	// drain: let the remaining runnable threads run on (default order, no choices, no time
	// advance) so that goroutines of a cleanly stopped system exit instead of leaking
	if !s.Deadlock && !s.Cut && len(s.Panics) == 0 {
		for extra := 0; extra < 3000; extra++ {
			synctest.Wait()
			s.mu.Lock()
			s.granted = nil
			var next *Thread
			for _, t := range s.threads {
				if t.state == tParked {
					next = t
					break
				}
			}
			if next != nil {
				next.state = tRunning
				s.granted = next
			}
			s.mu.Unlock()
			if next == nil {
				break
			}
			next.wake <- struct{}{}
		}
		synctest.Wait()
	}
	// retire: threads still parked are woken and leave through the graveyard; threads blocked in
	// a real operation stay blocked (Leaked counts them)
	S = nil
	s.mu.Lock()
	var parked []*Thread
	for _, t := range s.threads {
		switch t.state {
		case tParked, tWaiting:
			parked = append(parked, t)
		case tRunning:
			s.Leaked++
		}
	}
	s.mu.Unlock()
	for _, t := range parked {
		select {
		case t.wake <- struct{}{}:
		default:
		}
	}
}

// Dump describes every thread (for deadlock reports).
func (s *Sched) Dump() string {
	s.mu.Lock()
	defer s.mu.Unlock()
	out := ""
	for _, t := range s.threads {
		st := map[tstate]string{tRunning: "blocked-in-real-op", tParked: "parked", tWaiting: "waiting-for-mutex", tDone: "done"}[t.state]
		out += fmt.Sprintf("T%d %s at %q; ", t.ID, st, t.label)
	}
	return out
}
