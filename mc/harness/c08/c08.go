// Package c08: a DKV checkpoint restores to exactly the state at the Checkpoint call
// (DESIGN §5 C08): histories x crash points.
package c08

import (
	"crypto/sha1"
	"fmt"
	"runtime"
	"runtime/debug"
	"sort"

	"reduction.dev/reduction/dkv"
	"reduction.dev/reduction/dkv/recovery"
	"verif.local/mc/harness/dkvh"
	"verif.local/mc/mc"
	"verif.local/mc/report"
	"verif.local/mc/shim"
)

var keys = []string{"a", "b", "\x80\xff"}
var prefixes = []string{"", "a", "b", "\x80", "z"}

type params struct {
	depth int
	cfgs  []dkvh.Options
}

type handle struct {
	id  uint64
	h   recovery.CheckpointHandle
	ref dkvh.Ref
	dir string
}

func Run(k *report.Check) {
	k.Rule = "schedule part (scheduler build): three histories in which Checkpoint is called while flushes / a compaction are in flight, every schedule within the delay bound; the handle restored after everything came to rest must show the map at the Checkpoint call. History part: every history up to the depth over {put, delete, Checkpoint+wait, keep-only-newest / keep-two-newest retention update, restore from a retained handle into the same directory (as a redeployed operator does) or a new one and continue, hold / release+quiesce background work} under tiny option sets; the storage layer snapshots the file set after every mutating operation. For every retained handle and every such snapshot taken after the handle was returned (crash = abandon the process there) a fresh dkv.Open on a copy of the snapshot must not panic, must show exactly the map captured at the Checkpoint call (full scan, prefix scans, point gets) and must accept new writes (enough to rotate and flush) and read them back; every history ends with a quiescent final checkpoint that is probed the same way. non-trivial = distinct (file set, handle) probes taken after at least one later write, flush, compaction, checkpoint, retention update or restore"
	k.Assumptions = []string{"a crash loses nothing that a storage operation had completed (MemoryFilesystem has no torn writes)", "garbage collection is switched off during an execution: cleanup-driven deletion is C09's subject", "background work is quiescent or held in this tier"}
	k.Budget(150, 1500)
	cfgs := []dkvh.Options{{Mem: 30, Table: 40, L0: 2, Smallest: 4500, Ampl: 50}, {Mem: 50, Table: 80, L0: 1, Smallest: 4500, Ampl: 50},
		{Mem: 30, Table: 1, L0: 1, Smallest: 9000, Ampl: 200}}
	if k.Thorough() {
		cfgs = dkvh.Configs(false)
	}
	k.Parts(2)
	sb := k.Pick(1, 2)
	k.ExploreSched(fmt.Sprintf("sched/checkpoint-during-flush,delays<=%d", sb), mc.Config{Bound: sb, Deadline: k.Within(0.25)}, schedParams{}, schedBody)
	p := params{depth: k.Pick(5, 6), cfgs: cfgs}
	k.ExploreProc(fmt.Sprintf("history+crash/d=%d", p.depth), mc.Config{}, p, body)
}

var probed = map[[20]byte]bool{}
var execs int

func body(c *mc.Ctx) {
	p := c.Param.(params)
	old := debug.SetGCPercent(-1)
	defer func() {
		debug.SetGCPercent(old)
		execs++
		if execs%20 == 0 {
			runtime.GC()
		}
	}()
	o := p.cfgs[c.Choose(len(p.cfgs))]
	c.Op("[%s]", o)
	dkvh.Tune(o)
	defer shim.SetLocal(nil)
	root := dkvh.NewFS()
	root.Record(true)
	defer root.Hold(false)
	dir := "/w0"
	fs := root.WithWorkingDir(dir)
	db := dkv.Open(o.DBOptions(fs), nil)
	ref := dkvh.Ref{}
	var retained []handle
	nextID := uint64(1)
	// background work may be held back from the start (does not count towards the depth)
	// ... or the history starts from a database that already holds two flushed (and, depending on
	// the options, compacted) entries: histories from a non-initial state
	start := c.Choose(3)
	held := start == 1
	if held {
		c.Op("hold")
		root.Hold(true)
	}
	if start == 2 {
		c.Op("[warm-up: Put(a) Put(b), quiescent]")
		for i, k := range []string{"a", "b"} {
			v := fmt.Sprintf("w%d", i)
			db.Put([]byte(k), []byte(v))
			ref[k] = v
		}
		if err := db.WaitOnTasks(); err != nil {
			c.Failf("background task failed: %v", err)
		}
	}
	restores := 0
	later := false // something happened after the oldest retained handle was returned

	probe := func(files map[string][]byte, h handle, when string) {
		// dedupe identical (file set, handle) probes within this process
		hs := sha1.New()
		var names []string
		for n := range files {
			names = append(names, n)
		}
		sort.Strings(names)
		for _, n := range names {
			fmt.Fprintf(hs, "%s:%d:%x|", n, len(files[n]), sha1.Sum(files[n]))
		}
		fmt.Fprintf(hs, "h=%d %s %v %s", h.id, h.h.URI, h.ref, o)
		var key [20]byte
		copy(key[:], hs.Sum(nil))
		if probed[key] && !c.Replay {
			return
		}
		probed[key] = true
		if later {
			c.Nontrivial(fmt.Sprintf("%x", key))
		}
		what := fmt.Sprintf("restore of checkpoint %d from the files present %s", h.id, when)
		func() {
			defer func() {
				if r := recover(); r != nil {
					txt, ok := dkvh.PanicText(r)
					if !ok {
						panic(r)
					}
					c.FailSig("restore-panics", "%s panics: %s", what, txt)
				}
			}()
			saved := dkv.VerifFreshQueues() // the probe must not queue behind held tasks of the live database
			defer dkv.VerifRestoreQueues(saved)
			pfs := dkvh.MemFSFrom(files).WithWorkingDir(h.dir)
			pdb := dkv.Open(o.DBOptions(pfs), []recovery.CheckpointHandle{h.h})
			// WAL replay may have started flushes: reads concurrent with them are the schedule
			// tier's subject (C07), here the restored contents are judged at quiescence
			if err := pdb.WaitOnTasks(); err != nil {
				c.Failf("%s: background task failed after WAL replay: %v", what, err)
			}
			dkvh.CheckReads(c, what, pdb, h.ref, keys, prefixes)
			pref := h.ref.Clone()
			for i := 0; i < 4; i++ {
				k, v := fmt.Sprintf("probe%d", i%3), fmt.Sprintf("p%d", i)
				pdb.Put([]byte(k), []byte(v))
				pref[k] = v
			}
			pdb.Delete([]byte("a"))
			delete(pref, "a")
			if err := pdb.WaitOnTasks(); err != nil {
				c.Failf("%s: background task failed after new writes: %v", what, err)
			}
			dkvh.CheckReads(c, what+", after new writes", pdb, pref, append([]string{"probe0", "probe1", "probe2"}, keys...), append([]string{"probe"}, prefixes...))
		}()
	}
	// probeNew probes every snapshot logged since the last call against the handles in req.
	probeNew := func(req []handle) {
		for _, ev := range root.TakeLog() {
			if !c.Fresh() {
				continue
			}
			for _, h := range req {
				probe(ev.Files, h, "after `"+ev.Op+"`")
			}
		}
	}
	sync := func(label string) {
		c.Op(label)
		root.Hold(false)
		if err := db.WaitOnTasks(); err != nil {
			c.Failf("background task failed: %v", err)
		}
		held = false
	}
	quiesce := func() {
		if !held {
			if err := db.WaitOnTasks(); err != nil {
				c.Failf("background task failed: %v", err)
			}
		}
	}

	nops := 2 + len(keys) + 2 + 1 + 2 + 2
	for step := 0; step < p.depth; step++ {
		op := c.Choose(nops + 1)
		req := retained
		switch {
		case op == 0:
			step = p.depth
			continue
		case op == 1:
			sync("sync")
		case op == 2:
			if held {
				continue
			}
			c.Op("hold")
			root.Hold(true)
			held = true
			continue
		case op <= 2+len(keys)+2:
			if held && dkvh.SealedMemtables(db) >= 4 {
				sync("sync(forced:queue)")
				root.Hold(true)
				held = true
			}
			i := op - 3
			if i < len(keys) {
				val := fmt.Sprintf("v%d", step)
				c.Op("Put(%q,%s)", keys[i], val)
				db.Put([]byte(keys[i]), []byte(val))
				ref[keys[i]] = val
			} else {
				key := keys[i-len(keys)]
				c.Op("Delete(%q)", key)
				db.Delete([]byte(key))
				delete(ref, key)
			}
			quiesce()
		case op == 2+len(keys)+3:
			id := nextID
			nextID++
			c.Op("Checkpoint(%d)", id)
			captured := ref.Clone()
			wait := db.Checkpoint(id)
			h, err := wait()
			if err != nil {
				c.Failf("Checkpoint(%d) failed: %v", id, err)
			}
			probeNew(req) // storage operations of the checkpoint itself must not hurt older handles
			retained = append(retained, handle{id: id, h: h, ref: captured, dir: dir})
			req = retained
			// the handle has just been returned: the current file set must restore it
			if c.Fresh() {
				probe(root.Snapshot(), retained[len(retained)-1], "when the handle was returned")
			}
			quiesce()
		case op <= 2+len(keys)+5:
			keep := op - (2 + len(keys) + 3) // 1 or 2 newest
			if len(retained) <= keep {
				continue
			}
			retained = retained[len(retained)-keep:]
			req = retained
			var ids []uint64
			for _, h := range retained {
				ids = append(ids, h.id)
			}
			c.Op("Retain%v", ids)
			if err := db.UpdateRetainedCheckpoints(ids); err != nil {
				c.Failf("UpdateRetainedCheckpoints(%v): %v", ids, err)
			}
		default:
			if len(retained) == 0 {
				continue
			}
			h := retained[c.Choose(len(retained))]
			inPlace := op == nops-1
			if held {
				sync("sync(before restore)")
			}
			if inPlace {
				c.Op("Restore(%d,in place)", h.id)
			} else {
				restores++
				dir = fmt.Sprintf("/w%d", restores)
				c.Op("Restore(%d,into %s)", h.id, dir)
			}
			fs = root.WithWorkingDir(dir)
			func() {
				defer func() {
					if r := recover(); r != nil {
						txt, ok := dkvh.PanicText(r)
						if !ok {
							panic(r)
						}
						c.FailSig("restore-panics", "restore of checkpoint %d panics: %s", h.id, txt)
					}
				}()
				db = dkv.Open(o.DBOptions(fs), []recovery.CheckpointHandle{h.h})
				if !held {
					db.WaitOnTasks()
				}
			}()
			ref = h.ref.Clone()
			h.dir = dir
			retained = []handle{h}
			req = retained
			quiesce()
		}
		if len(retained) > 0 {
			later = true
		}
		probeNew(req)
		if c.Fresh() {
			dkvh.CheckReads(c, "live", db, ref, keys, prefixes)
		}
	}
	sync("sync(final)")
	probeNew(retained)
	dkvh.CheckReads(c, "live after final sync", db, ref, keys, prefixes)
	for _, h := range retained {
		probe(root.Snapshot(), h, "at the end")
	}
	// one more checkpoint from wherever the history ended (quiescent): it must restore too
	if c.Fresh() {
		c.Op("Checkpoint(%d) at the end", nextID)
		h, err := db.Checkpoint(nextID)()
		if err != nil {
			c.Failf("final Checkpoint(%d) failed: %v", nextID, err)
		}
		probe(root.Snapshot(), handle{id: nextID, h: h, ref: ref.Clone(), dir: dir}, "after the final checkpoint")
	}
	if len(retained) > 0 {
		c.Note("executions_with_a_retained_checkpoint")
	}
	if restores > 0 {
		c.Note("executions_with_restore_into_new_dir")
	}
}
