// Copyright 2016 The Go Authors. All rights reserved.
// Use of this source code is governed by a BSD-style
// license that can be found in the LICENSE file.

// Package errgroup provides synchronization, error propagation, and Context
// cancelation for groups of goroutines working on subtasks of a common task.
//
// [errgroup.Group] is related to [sync.WaitGroup] but adds handling of tasks
// returning errors.
package errgroup

import (
	"context"
	"fmt"
	vshim "verif.local/mc/shim"
	"verif.local/mc/shim/sync"
)

type token struct{}

// A Group is a collection of goroutines working on subtasks that are part of
// the same overall task.
//
// A zero Group is valid, has no limit on the number of active goroutines,
// and does not cancel on error.
type Group struct {
	cancel func(error)

	wg sync.WaitGroup

	sem chan token

	errOnce sync.Once
	err     error
}

func (g *Group) done() {
	if g.sem != nil {
		<-g.sem
	}
	g.wg.Done()
}

// WithContext returns a new Group and an associated Context derived from ctx.
//
// The derived Context is canceled the first time a function passed to Go
// returns a non-nil error or the first time Wait returns, whichever occurs
// first.
func WithContext(ctx context.Context) (*Group, context.Context) {
	ctx, cancel := context.WithCancelCause(ctx)
	return &Group{cancel: cancel}, ctx
}

// Wait blocks until all function calls from the Go method have returned, then
// returns the first non-nil error (if any) from them.
func (g *Group) Wait() error {
	g.wg.Wait()
	if g.cancel != nil {
		g.cancel(g.err)
	}
	return g.err
}

// Go calls the given function in a new goroutine.
// It blocks until the new goroutine can be added without the number of
// active goroutines in the group exceeding the configured limit.
//
// The first call to return a non-nil error cancels the group's context, if the
// group was created by calling WithContext. The error will be returned by Wait.
func (g *Group) Go(f func() error) {
	if g.sem != nil {
		g.sem <- token{}
	}

	g.wg.Add(1)
	vshim.Go(func() {
		defer g.done()

		if err := f(); err != nil {
			g.errOnce.Do(func() {
				g.err = err
				if g.cancel != nil {
					g.cancel(g.err)
				}
			})
		}
	})
}

// TryGo calls the given function in a new goroutine only if the number of
// active goroutines in the group is currently below the configured limit.
//
// The return value reports whether the goroutine was started.
func (g *Group) TryGo(f func() error) bool {
	if g.sem != nil {
		select {
		case g.sem <- token{}:
			// Note: this allows barging iff channels in general allow barging.
		default:
			return false
		}
	}

	g.wg.Add(1)
	vshim.Go(func() {
		defer g.done()

		if err := f(); err != nil {
			g.errOnce.Do(func() {
				g.err = err
				if g.cancel != nil {
					g.cancel(g.err)
				}
			})
		}
	})
	return true
}

// SetLimit limits the number of active goroutines in this group to at most n.
// A negative value indicates no limit.
// A limit of zero will prevent any new goroutines from being added.
//
// Any subsequent call to the Go method will block until it can add an active
// goroutine without exceeding the configured limit.
//
// The limit must not be modified while any goroutines in the group are active.
func (g *Group) SetLimit(n int) {
	if n < 0 {
		g.sem = nil
		return
	}
	if len(g.sem) != 0 {
		panic(fmt.Errorf("errgroup: modify limit while %v goroutines in the group are still active", len(g.sem)))
	}
	g.sem = make(chan token, n)
}
