package c06

import (
	"context"
	"fmt"
	"slices"
	"strings"
	"time"

	"reduction.dev/reduction-protocol/handlerpb"
	"reduction.dev/reduction/dkv"
	"reduction.dev/reduction/dkv/recovery"
	"reduction.dev/reduction/partitioning"
	"reduction.dev/reduction/proto"
	"reduction.dev/reduction/workers/operator"
	"verif.local/mc/harness/dkvh"
	"verif.local/mc/mc"
	"verif.local/mc/report"
	"verif.local/mc/shim"
)

// End-to-end store tier: M old operators, each a real dkv.DB (tiny memtable, so that state is
// spread over tables, memtables and the WAL) under a real KeyedStateStore, apply an enumerated
// history of puts and deletes to the keys of their key groups and checkpoint. The job's side is
// the real AssignRanges over the checkpoints in an enumerated recorded order; N new operators
// open real databases from the handles they are assigned, with the real OperatorPartition
// ownership, and must see exactly the state of their own key groups; further enumerated
// mutations at the new owners must take effect, also after flush and compaction.

const groups = 4

// subjectOf[kg] is a subject key that falls into key group kg.
var subjectOf = func() []string {
	ks := partitioning.NewKeySpace(groups, 1)
	out := make([]string, groups)
	found := 0
	for i := 0; found < groups && i < 1000; i++ {
		s := fmt.Sprintf("s%d", i)
		kg := int(ks.KeyGroup([]byte(s)))
		if out[kg] == "" {
			out[kg] = s
			found++
		}
	}
	return out
}()

type eparams struct {
	depth, post int
	scales      [][2]int
	hot         []int // key groups whose subject the histories touch
	second      bool  // optionally rescale a second time
	noTimers    bool  // histories of puts and deletes only (deeper: old operators with compacted levels)
}

func endToEnd(k *report.Check) {
	scales := [][2]int{{2, 1}, {1, 2}, {3, 2}}
	if k.Thorough() {
		scales = [][2]int{{2, 1}, {1, 2}, {3, 2}, {2, 3}, {3, 1}, {1, 3}, {2, 2}, {4, 3}, {3, 4}}
	}
	p := eparams{depth: k.Pick(3, 4), post: 1, scales: scales, hot: []int{1, 2}}
	k.ExploreProc(fmt.Sprintf("stores/d=%d+%d", p.depth, p.post), mc.Config{Deadline: k.Within(0.5)}, p, e2eBody)
	// long histories before a scale-in: one old operator's tables have been compacted into the lower
	// levels while the other's sit in level 0 (or only in its memtable): the composite level list
	// of the new operator then holds high sequence numbers beneath low ones
	pd := eparams{depth: k.Pick(6, 7), post: 1, scales: [][2]int{{2, 1}, {3, 2}}[:k.Pick(1, 2)], hot: []int{1, 2}, noTimers: true}
	k.ExploreProc(fmt.Sprintf("stores-long-histories/d=%d+%d", pd.depth, pd.post), mc.Config{Deadline: k.Within(0.5)}, pd, e2eBody)
	p2 := eparams{depth: k.Pick(2, 3), post: 1, scales: [][2]int{{1, 2}, {2, 3}, {1, 3}}[:k.Pick(2, 3)], hot: []int{1, 2}, second: true}
	k.ExploreProc(fmt.Sprintf("stores-two-rescales/d=%d+%d", p2.depth, p2.post), mc.Config{}, p2, e2eBody)
}

// always answers that the table is still needed: deleting shared tables is C09's subject
type needyNeighbour struct{ proto.UnimplementedOperator }

func (*needyNeighbour) NeedsTable(ctx context.Context, uri string) (bool, error) { return true, nil }

type store struct {
	db *dkv.DB
	st *operator.KeyedStateStore
	ts *operator.TimerStore
	r  partitioning.KeyGroupRange
}

func newStore(db *dkv.DB, count int, r partitioning.KeyGroupRange) *store {
	ks := partitioning.NewKeySpace(groups, count)
	return &store{db: db, st: operator.NewKeyedStateStore(db, ks), ts: operator.NewTimerStore(db, ks, r, 1<<30), r: r}
}

var timerAt = time.Unix(100, 0).UTC()

func render(c *mc.Ctx, who, subject string, s *store) string {
	st, err := s.st.GetState([]byte(subject))
	if err != nil {
		c.Failf("%s: GetState(%q): %v", who, subject, err)
	}
	var out []string
	for _, ns := range st {
		for _, e := range ns.Entries {
			out = append(out, fmt.Sprintf("%s/%s=%s", ns.Namespace, e.Key, e.Value))
		}
	}
	slices.Sort(out)
	return strings.Join(out, ",")
}

var execSeq int

func e2eBody(c *mc.Ctx) {
	p := c.Param.(eparams)
	sc := p.scales[c.Choose(len(p.scales))]
	m, n := sc[0], sc[1]
	ps := perms(m)
	perm := ps[c.Choose(len(ps))]
	o := dkvh.Options{Mem: 60, Table: 80, L0: 2, Smallest: 4500, Ampl: 50}
	dkvh.Tune(o)
	defer shim.SetLocal(nil)
	root := dkvh.NewFS()
	execSeq++
	base := fmt.Sprintf("/x%d", execSeq)
	c.Op("[%d -> %d operators, %d key groups, checkpoints recorded in order %v]", m, n, groups, perm)

	oldRanges := partitioning.NewKeySpace(groups, m).KeyGroupRanges()
	olds := make([]*store, m)
	for i := range olds {
		db := dkv.Open(o.DBOptions(root.WithWorkingDir(fmt.Sprintf("%s/old%d", base, i))), nil)
		olds[i] = newStore(db, m, oldRanges[i])
	}
	ownerOf := func(ss []*store, kg int) *store {
		for _, s := range ss {
			if s.r.IncludesKeyGroup(partitioning.KeyGroup(kg)) {
				return s
			}
		}
		panic("mc: harness: key group without owner")
	}
	shadow := map[string]string{} // subject -> value of entry n/k ("" = absent)
	rewrites := 0
	written := map[string]int{}
	timers := map[string]bool{} // subjects with a timer set (all at the same time)
	mutate := func(ss []*store, step, op int) {
		nh := len(p.hot)
		if op >= 2*nh {
			op -= 2 * nh
			if op < nh { // set the timer of a subject
				sub := subjectOf[p.hot[op]]
				c.Op("SetTimer(%s)", sub)
				s := ownerOf(ss, p.hot[op])
				s.ts.Put([]byte(sub), timerAt)
				timers[sub] = true
				written["timer:"+sub]++
				if written["timer:"+sub] > 1 {
					rewrites++
				}
				if err := s.db.WaitOnTasks(); err != nil {
					c.Failf("background task failed: %v", err)
				}
				return
			}
			i := (op - nh) % len(ss) // the earliest timer of an operator fires
			s := ss[i]
			t, ok := s.ts.Pop()
			if !ok {
				c.Op("FireTimer(operator %d): none", i)
				return
			}
			c.Op("FireTimer(operator %d): %s", i, t.Key)
			if !timers[string(t.Key)] {
				c.FailSig("timer-unknown", "operator %d fires a timer of %s, which has none set", i, t.Key)
			}
			if !s.r.IncludesKeyGroup(partitioning.NewKeySpace(groups, 1).KeyGroup(t.Key)) {
				c.FailSig("rescale-foreign-timer", "operator %d %v fires a timer of key %s, which belongs to another operator", i, s.r, t.Key)
			}
			delete(timers, string(t.Key))
			rewrites++
			if err := s.db.WaitOnTasks(); err != nil {
				c.Failf("background task failed: %v", err)
			}
			return
		}
		kg, del := p.hot[op/2], op%2 == 1
		sub := subjectOf[kg]
		mut := &handlerpb.StateMutation{}
		if del {
			c.Op("Delete(%s)", sub)
			mut.Mutation = &handlerpb.StateMutation_Delete{Delete: &handlerpb.DeleteMutation{Key: []byte("k")}}
			delete(shadow, sub)
		} else {
			v := fmt.Sprintf("v%d", step)
			c.Op("Put(%s=%s)", sub, v)
			mut.Mutation = &handlerpb.StateMutation_Put{Put: &handlerpb.PutMutation{Key: []byte("k"), Value: []byte(v)}}
			shadow[sub] = v
		}
		written[sub]++
		if written[sub] > 1 {
			rewrites++
		}
		s := ownerOf(ss, kg)
		if err := s.st.ApplyMutations([]byte(sub), []*handlerpb.StateMutationNamespace{{Namespace: "n", Mutations: []*handlerpb.StateMutation{mut}}}); err != nil {
			c.Failf("ApplyMutations: %v", err)
		}
		if p.noTimers {
			// ballast under the same key group and a schema byte of its own (invisible to the state
			// and timer stores): the memtable fills up, so that every mutation ends in a table and
			// the tables are compacted down the levels
			pad := []byte{byte(kg >> 8), byte(kg), 0x7f}
			pad = append(pad, fmt.Sprintf("pad-%d", step)...)
			s.db.Put(pad, []byte(strings.Repeat("x", 40)))
		}
		if err := s.db.WaitOnTasks(); err != nil {
			c.Failf("background task failed: %v", err)
		}
	}
	want := func(sub string) string {
		if v, ok := shadow[sub]; ok {
			return "n/k=" + v
		}
		return ""
	}
	nOps := 3*len(p.hot) + 2
	if p.noTimers {
		nOps = 2 * len(p.hot)
	}
	for step := 0; step < p.depth; step++ {
		op := c.Choose(1 + nOps)
		if op == 0 {
			break
		}
		mutate(olds, step, op-1)
	}
	// rescale checkpoints every operator of one generation (the job records the checkpoints in the
	// given order), distributes the handles with the real AssignRanges and opens the next generation
	gen := 0
	rescale := func(prev []*store, prevRanges []partitioning.KeyGroupRange, n int, perm []int) ([]*store, []partitioning.KeyGroupRange) {
		gen++
		m := len(prev)
		handles := make([]recovery.CheckpointHandle, m)
		for i, s := range prev {
			if c.Replay {
				sealed, levels := dkvh.Layout(s.db)
				c.Op("    operator %d before its checkpoint: %d sealed memtables, tables per level %v", i, sealed, levels)
			}
			h, err := s.db.Checkpoint(uint64(gen))()
			if err != nil {
				c.Failf("checkpoint %d of operator %d: %v", gen, i, err)
			}
			handles[i] = h
		}
		from := make([]partitioning.KeyGroupRange, m)
		recorded := make([]recovery.CheckpointHandle, m)
		for i, j := range perm {
			from[i], recorded[i] = prevRanges[j], handles[j]
		}
		newRanges := partitioning.NewKeySpace(groups, n).KeyGroupRanges()
		assigned := partitioning.AssignRanges(newRanges, from)
		news := make([]*store, n)
		for i := range news {
			var hs []recovery.CheckpointHandle
			for _, j := range assigned[i] {
				hs = append(hs, recorded[j])
			}
			var nr []partitioning.KeyGroupRange
			var no []proto.Operator
			for j := range news {
				if j != i {
					nr = append(nr, newRanges[j])
					no = append(no, &needyNeighbour{})
				}
			}
			opts := o.DBOptions(root.WithWorkingDir(fmt.Sprintf("%s/gen%d-op%d", base, gen, i)))
			opts.DataOwnership = operator.VerifNewOperatorPartition(newRanges[i], nr, no)
			db := dkv.Open(opts, hs)
			if err := db.WaitOnTasks(); err != nil {
				c.Failf("background task of new operator %d failed: %v", i, err)
			}
			news[i] = newStore(db, n, newRanges[i])
		}
		return news, newRanges
	}
	news, newRanges := rescale(olds, oldRanges, n, perm)
	check := func(when string) {
		for kg, sub := range subjectOf {
			owner := ownerOf(news, kg)
			for i, s := range news {
				got := render(c, fmt.Sprintf("%s: new operator %d", when, i), sub, s)
				if s == owner {
					if got != want(sub) {
						sig := "rescale-state-lost"
						if got != "" {
							sig = "rescale-state-stale"
						}
						c.FailSig(sig, "%s: new operator %d %v owns key %s (key group %d) and sees [%s], the handler's mutations leave [%s]", when, i, s.r, sub, kg, got, want(sub))
					}
				}
				// a non-owner is never asked for the key (C05); tables are shared between the new
				// operators by design, so what GetState would return there is not observable
			}
		}
	}
	check("after the restore")
	for step := 0; step < p.post; step++ {
		op := c.Choose(1 + nOps)
		if op == 0 {
			break
		}
		mutate(news, p.depth+step, op-1)
		check("after an update following the restore")
	}
	all := append(slices.Clone(olds), news...)
	if p.second && c.Choose(2) == 1 {
		// a second rescale (back to one operator or to the first operator count), whose checkpoints
		// include whatever the first restore left in the new operators' databases
		k2 := []int{1, m}[c.Choose(2)]
		ps2 := perms(len(news))
		perm2 := ps2[c.Choose(len(ps2))]
		c.Op("[second rescale %d -> %d operators, checkpoints recorded in order %v]", len(news), k2, perm2)
		news, newRanges = rescale(news, newRanges, k2, perm2)
		all = append(all, news...)
		check("after the second restore")
	}
	_ = newRanges
	// fill the memtables so that they are flushed and compacted with the restored tables
	for round := 0; round < 3; round++ {
		for kg := range subjectOf {
			s := ownerOf(news, kg)
			filler := &handlerpb.StateMutation{Mutation: &handlerpb.StateMutation_Put{Put: &handlerpb.PutMutation{Key: []byte(fmt.Sprintf("f%d", round)), Value: []byte("x")}}}
			if err := s.st.ApplyMutations([]byte(subjectOf[kg]), []*handlerpb.StateMutationNamespace{{Namespace: "z", Mutations: []*handlerpb.StateMutation{filler}}}); err != nil {
				c.Failf("ApplyMutations: %v", err)
			}
			if err := s.db.WaitOnTasks(); err != nil {
				c.Failf("background task failed: %v", err)
			}
		}
	}
	c.Op("filler entries in namespace z, flush and compaction")
	checkFill := func() {
		for kg, sub := range subjectOf {
			got := render(c, "after flush and compaction", sub, ownerOf(news, kg))
			w := want(sub)
			fill := "z/f0=x,z/f1=x,z/f2=x"
			if w != "" {
				w += ","
			}
			if got != w+fill {
				c.FailSig("rescale-state-stale-after-compaction", "after flush and compaction: the owner of key %s sees [%s], the handler's mutations leave [%s]", sub, got, w+fill)
			}
		}
	}
	checkFill()
	// drain the timers of every new operator: exactly the timers of its own key groups
	for i, s := range news {
		var got, wantT []string
		for {
			t, ok := s.ts.Pop()
			if !ok {
				break
			}
			got = append(got, string(t.Key))
			if len(got) > 2*groups {
				break
			}
		}
		for kg, sub := range subjectOf {
			if timers[sub] && s.r.IncludesKeyGroup(partitioning.KeyGroup(kg)) {
				wantT = append(wantT, sub)
			}
		}
		slices.Sort(got)
		slices.Sort(wantT)
		if fmt.Sprint(got) != fmt.Sprint(wantT) {
			sig := "rescale-timers-lost"
			if len(got) >= len(wantT) {
				sig = "rescale-timers-stale-or-foreign"
			}
			c.FailSig(sig, "new operator %d %v holds the timers of %v, the timers set and not fired for its key groups are %v", i, s.r, got, wantT)
		}
	}
	for _, s := range all {
		s.db.WaitOnTasks()
	}
	if rewrites > 0 && m != n {
		c.Nontrivial(strings.Join(c.Ops(), " "))
	}
}
